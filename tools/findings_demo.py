#!/usr/bin/env python3
"""Replay findings/histories.jsonl against the pinned original commit and against /repo's
current tree; writes findings/before.jsonl and findings/after.jsonl (documentation of the
genuine defects; not part of any check)."""
import json, os, subprocess, sys, shutil
ROOT = os.path.dirname(os.path.dirname(os.path.abspath(__file__)))
sys.path.insert(0, os.path.join(ROOT, 'tools'))
ORIG = '9f60e40'
def run(repo, out):
    os.environ['VERIF_REPO'] = repo
    import importlib, driver
    importlib.reload(driver)
    d, exe = driver.build()
    try:
        hs = [json.loads(l) for l in open(os.path.join(ROOT, 'findings', 'histories.jsonl')) if l.strip()]
        rs = driver.run_histories(exe, hs)
        with open(out, 'w') as f:
            for h, r in zip(hs, rs):
                f.write(json.dumps({'id': h['id'], 'property': h['property'], 'what': h['what'], 'result': r}, ensure_ascii=False) + '\n')
    finally:
        driver.cleanup(d)
wt = '/tmp/riti-orig-wt'
subprocess.run(['git', '-C', '/repo', 'worktree', 'remove', '--force', wt], capture_output=True)
subprocess.check_call(['git', '-C', '/repo', 'worktree', 'add', '--detach', wt, ORIG], stdout=subprocess.DEVNULL, stderr=subprocess.DEVNULL)
try:
    run(wt, os.path.join(ROOT, 'findings', 'before.jsonl'))
finally:
    subprocess.run(['git', '-C', '/repo', 'worktree', 'remove', '--force', wt], capture_output=True)
run('/repo', os.path.join(ROOT, 'findings', 'after.jsonl'))
shutil.rmtree('/tmp/riti-verif-ud', ignore_errors=True)
