#!/usr/bin/env python3
"""Generate /verif/MANIFEST.json from tools/plan.py (single source of truth)."""
import json
import os
import sys

ROOT = os.path.dirname(os.path.dirname(os.path.abspath(__file__)))
sys.path.insert(0, os.path.join(ROOT, 'tools'))
import plan as PL

props = [json.loads(l)['id'] for l in open(os.path.join(ROOT, 'properties.jsonl')) if l.strip()]
checks = []
na = []
for pid in props:
    p = PL.PLAN.get(pid)
    if p is None or p.get('not_applicable'):
        na.append({'property_id': pid, 'reason': (p or {}).get('not_applicable', PL.NOT_YET.get(pid, 'check not built yet'))})
        continue
    checks.append({
        'property_id': pid,
        'quick_cmd': './check %s --tier quick' % pid,
        'thorough_cmd': './check %s --tier thorough' % pid,
        'evidence_file': 'evidence/%s.json' % pid,
        'replay_cmd_template': './check replay {path}',
        'engine': 'verus+kani',
        'level_claimed': {'category': p['level'], 'text': p['claim'], 'design_ref': p.get('design_ref', 'DESIGN.md section 8, ' + pid)},
        'level_note': p['note'],
        'technique': p['technique'],
    })
man = {
    'version': 1,
    'setup_cmd': 'true',
    'hooks': {
        'guard': 'openbangla_riti_verif',
        'enable': 'no hook is committed to /repo: checks copy /repo to a scratch directory outside /repo and /verif, inject inject/*.rs there and build with RUSTFLAGS="--cfg openbangla_riti_verif" (Kani: --cfg kani); Verus units are assembled from /repo/src by tools/assemble.py',
        'baseline_off_cmd': 'cd /repo && cargo test --workspace --no-fail-fast --offline',
        'source_commits': [],
        'add_only': True,
    },
    'engines': [
        {'name': 'verus-units', 'path': 'tools/assemble.py + tools/verus_run.py + spec/units/*.vrs',
         'serves_properties': sorted(checks_p['property_id'] for checks_p in checks),
         'kind_free_text': 'Verus 0.2026.09.13 on functions cut byte-for-byte out of /repo/src on every run, contracts inserted'},
    ],
    'checks': checks,
    'notes': 'Fix commits in /repo are listed in known_findings.json (fixed: entries). See DESIGN.md.',
    'not_applicable': na,
}
json.dump(man, open(os.path.join(ROOT, 'MANIFEST.json'), 'w'), indent=1)
print('MANIFEST.json: %d checks, %d not_applicable' % (len(checks), len(na)))
