"""Which machinery decides which property (the single source for ./check and MANIFEST.json)."""

UNITS = {
    'fixed_pkv_off': 'FixedMethod::process_key_value, old vowel-sign order off, vs the C12 rule chain',
    'fixed_pkv_on': 'FixedMethod::process_key_value, old vowel-sign order on, vs the C14 transition function',
    'fixed_pkv_common': 'FixedMethod::process_key_value, clauses common to both orders (reph dispatch, session opening, frame)',
    'fixed_reph': 'FixedMethod::{insert_old_style_reph, is_reph_moveable}: conservation, scan contract, placement',
    'fixed_session': 'FixedMethod API functions + create_dictionary_suggestion (functional list)',
    'layout': 'Layout::get_char_for_key (all 65536 codes), keycode_to_char, get_modifiers, LayoutModifiers::from',
    'rank': 'Rank constructors/comparator, Suggestion constructors/read-outs',
    'util': 'smart_quoter, push_checked, SplittedString accessors, split_spec lemmas, character classes',
    'phon': 'PhoneticSuggestion::{add_suffix_to_suggestions, suggest_only_phonetic, suggestion_with_dict, suggest, get_prev_selection}',
    'pmeth': 'PhoneticMethod under an adversarial environment (new, key, backspace, commit, update_engine)',
    'data': 'Data::new: the bundled tables are a function of the data directory alone; Data::find_suffix / search_corrected / get_words_for are the look-ups in those tables',
    'split': 'SplittedString::split (the real three-way split: find + right-to-left char_indices scan + split_at) against split_spec',
    'fixed_search': 'search_dictionary + clean_string: the real fixed-method dictionary search (first-letter table, cleaned key, pattern, filter / map closures incl. the traditional-joining loop, extend) against sd_list',
    'layout_get': 'Layout::layout_get_value / layout_get_value_numpad: entry name, empty = none, key pad only with the option on',
}

COMMON_TRUST = ('Trusted: Verus/Z3/rustc; the extractor/assembler (round-trip checked, item hashes in the evidence); std contracts '
                'added by assume_specification and the external_body stubs listed mechanically in evidence.coverage.trusted_base; '
                'src/context.rs (dyn dispatch, RefCell) is pinned glue read by hand. ')

PLAN = {
    'C01': {
        'bounded': ['phonetic_api', 'fixed_api', 'fixed_rules', 'user_files', 'suffix_forms', 'ansi', 'split'], 'static': ['context_glue'], 'kani': ['k_keycode_to_char'],
        'data': ['tables'],
        'level': 'proof', 'safety': True,
        'units': ['fixed_pkv_common', 'fixed_reph', 'fixed_session', 'layout', 'layout_get', 'rank', 'util', 'phon', 'pmeth', 'data', 'split', 'fixed_search'],
        'technique': 'Verus built-in safety obligations (unwrap/index/slice/overflow/termination) on extracted real functions under data-structure invariants',
        'claim': 'Every extracted riti function (both methods, Rank/Suggestion, layout, utility) is proved free of panics, failed unwraps, out-of-bounds or off-boundary slices, arithmetic overflow and non-termination for ALL inputs satisfying the stated invariants (ASCII buffer, memo transparency, in-range commit index), and every API operation is proved to re-establish those invariants; keys without a character are ignored; a memo entry is proved to hold the direct hits of its word only, so the suffix pass multiplies lists whose size does not depend on the history.',
        'note': COMMON_TRUST + 'Not decided: panics inside okkhor/regex/poriborton/emojicon, sort panic-freedom for non-total comparators, RefCell double borrow, time complexity beyond termination; the only T2 function left is include_from_dictionary (flat_map: no vstd model); search_dictionary / clean_string are proved in unit fixed_search; internal_backspace_step is proved in unit fixed_reph (std contracts for Take::fold, String::len / truncate in byte offsets are T3); SplittedString::split is proved in unit split (std contracts of str::find with a closure and char_indices are T3; the UTF-8 offset facts are proved from vstd::utf8).',
    },
    'C02': {
        'bounded': ['phonetic_api', 'fixed_api', 'ansi', 'history_independence'], 'kani': ['k_keycode_to_char'],
        'level': 'proof',
        'units': ['rank', 'fixed_session', 'phon', 'pmeth'],
        'technique': 'Verus postcondition sg_ok (len>=1, selection<len, auxiliary==composition) on every event function; read-out preconditions',
        'claim': 'Proof that every key/backspace event of both methods returns a suggestion with >=1 candidate, selection < length (given a selection valid for the list shown before) and auxiliary text equal to the composition, that every terminating event (commit, finish, emptying backspace) leaves an empty composition -- so "the composition" is the keys since the last terminating event, nothing older -- and that every index below the length is readable (read-out functions verified with exactly those preconditions).',
        'note': COMMON_TRUST + 'std list-length specs (sort, dedup, truncate) assumed.  Pre-edit read-out with ANSI on is proved total only for texts the Bijoy converter of the dependency is defined on (precondition bj_ok): it panics on the vowel sign U+09C4 -- recorded open known finding C02-ansi-vocalic-rr (known_findings.json), re-executed on every run; the bounded check ansi reads every key of both layouts with ANSI on and reports any other failing read-out.',
    },
    'C03': {
        'bounded': ['split', 'phonetic_api', 'history_independence'], 'kani': ['k_keycode_to_char'],
        'level': 'proof',
        'units': ['layout', 'util', 'phon', 'pmeth', 'split'],
        'technique': 'Verus: keycode_to_char == riti.h table; suggest_only_phonetic == avro(p)+avro(w)+avro(t) over split_spec; statement-level split lemmas',
        'claim': 'Proof that the key-to-character table equals the one derived from riti.h, that the buffer is exactly the typed characters, that with suggestions off the result is avro(leading)+avro(word)+avro(trailing) for the three-way split, with lemmas turning the split spec into the statement wording (word over letters/digits wrapped in punctuation), and that with suggestions on that transliteration (modulo curling) is pushed into the list.',
        'note': COMMON_TRUST + 'okkhor (avro) is an uninterpreted function; SplittedString::split is proved equal to split_spec in unit split (real body: closure find, right-to-left char_indices loop with escape/colon automaton, both split_at calls on proved char boundaries); what stays assumed there are two std contracts (str::find with a closure returns the byte offset of the first accepted code point; char_indices yields (offset, code point) and is a well-behaved iterator); the UTF-8 facts (offsets of code points are char boundaries, cutting the bytes there cuts the code points there, str::len is the offset of the end) are PROVED from vstd::utf8 (encode / decode lemmas); the bounded check split stays as a cross-check of the two std contracts.',
    },
    'C04': {
        'bounded': ['layout_values', 'layout_api', 'update_engine'], 'kani': ['k_modifiers_plane', 'k_keycode_to_char'],
        'level': 'proof',
        'units': ['layout', 'layout_get', 'fixed_pkv_off', 'fixed_session', 'data'],
        'technique': 'Verus: get_char_for_key for all u16 codes vs riti.h-generated table; plane chosen by the AltGr bit only; frame/append postconditions of get_suggestion',
        'claim': 'Proof over all 65536 key codes, all modifier bytes and both number-pad settings that the value handed to the composer is exactly the layout entry the riti.h key name designates (plane from the AltGr bit only, key pad only with the option on, empty/missing entry = nothing), that a key without a value changes no state, and that with all helpers off an idle context holds exactly that value afterwards; Layout::parse and FixedMethod::new are proved to hold, whatever the options are, the whole entry table of the configured layout file (load marker), and every event function leaves the layout untouched.',
        'note': COMMON_TRUST + 'layout_get_value(_numpad) are proved in unit layout_get against the String-keyed view of the real map (entry Key_<name>_<plane> / <name>, empty = none, key pad only with the option on); only std format! + `impl Display for LayoutModifiers` ("Normal" / "AltGr") stay T3, covered by the exhaustive bounded check layout_values; the transcription of riti.h macro names into entry names is hand-written (tools/gen_keytable.py); Config::get_layout and serde_json::from_value are T3 (the file content is the environment\'s); the bounded check update_engine also flips the number-pad option on a live context.',
    },
    'C05': {
        'bounded': ['history_independence', 'learn_recall', 'update_engine'], 'static': ['no_shared_state'],
        'level': 'proof',
        'units': ['phon', 'pmeth', 'split', 'data'],
        'technique': 'Verus: memo invariants (transparent, keys split-stable, prefixes memoised) + spec-level lemma list == ph_list_text(text, ...) independent of the memo',
        'claim': 'Proof of history independence for the candidate texts and their order: (1) every memo entry is the direct-candidate list of its key, every key is a split-stable word part, the memo only grows by the word part of the current text and is cleared when the user list is reloaded; (2) PhoneticMethod keeps the invariant that the word part of every non-empty prefix of the composition is memoised (preserved by key, backspace; trivially true when idle); (3) spec-level lemma: under (1)+(2) a split point of the word is memoised iff its base is itself a split-stable word part -- a property of the text -- hence list == ph_list_text(text, config, data, user list), a function that does not mention the memo; get_suggestion and backspace_event are proved to return exactly that list, and the preselected index is proved to be rv_first_index of the learned-or-derived text in it (a function of text and learned selections).',
        'note': COMMON_TRUST + 'include_from_dictionary is T2 (assumed contract); split and search_corrected are proved (units split, phon); sort assumed to be a function of the ranked values; "other contexts in the same process" rests on safe Rust aliasing + the scan for process-wide state.',
    },
    'C06': {
        'bounded': ['fixed_rules', 'fixed_api', 'update_engine'], 'static': ['context_glue'],
        'level': 'proof',
        'units': ['fixed_session', 'fixed_pkv_common', 'pmeth', 'rank', 'phon', 'layout_get'],
        'technique': 'Verus postconditions: reset state after terminating events, truthful session flag, strictly decreasing measure, wf invariant (idle => no raw keys; scratch list overwritten before read)',
        'claim': 'Proof for both methods that commit, finish, ctrl-backspace and any backspace returning an empty suggestion leave the abstract state of a new context, that the session flag is exactly "composition non-empty or a sign waiting", that an idle backspace changes nothing, that every backspace strictly decreases a measure, that non-empty pre-edit implies an open session, and that the scratch list read by later events is a function of the current text only.',
        'note': COMMON_TRUST + 'Equality with a new context is at the level of the abstract state (buffer, raw keys, waiting sign; memo transparent by C05).',
    },
    'C07': {
        'bounded': ['phonetic_api', 'history_independence', 'emoji_tables', 'update_engine'], 'data': ['tables'],
        'level': 'proof',
        'units': ['rank', 'util', 'phon', 'pmeth', 'data'],
        'technique': 'Verus: Rank::cmp == rank_cmp (class, number); assembly postcondition of suggest; push_checked duplicate-freedom at ranked-value level',
        'claim': 'Proof that the comparator is the documented order, that candidate ranks are First(auto-correct, user entry first), Other(10*distance), Last(transliteration,2), Last(English,3), that the list handed to the sort is exactly that assembly with text-duplicates suppressed by push_checked, and that the result is the (assumed stable) sort of it.  Statement clauses at spec level (lemma_c07_list over the sorted assembly): the auto-correct entry, when one exists, is first; direct and suffix-built dictionary words appear in non-decreasing rank number (10 x the distance recorded by the search, inherited by suffix-built forms); the transliteration, unless already present, follows every dictionary word; raw English is last; an emoji (numbers 1..9) never precedes a dictionary word of distance 0; no text occurs twice.',
        'note': COMMON_TRUST + 'Sortedness rests on one axiom about std sort (stable, sorted w.r.t. the proved comparator key) + data preconditions: emoji numbers 1..9, distances <= 25; that the number recorded by the dictionary search IS the edit distance is T2 (include_from_dictionary), checked by the bounded list oracle in phonetic_api / history_independence (distance and dictionary membership recomputed).',
    },
    'C08': {
        'bounded': ['suffix_forms', 'update_engine'],
        'level': 'proof',
        'units': ['phon', 'util', 'data', 'pmeth'],
        'technique': 'Verus: full functional postcondition of add_suffix_to_suggestions (every split point x every memoised base x three joining rules) with loop invariants',
        'claim': 'Proof that the suffix-built candidates are exactly: for every split point, in order, with a known suffix and a memoised base, every memoised candidate of the base joined by the three rules of the statement (rank preserved) -- soundness and completeness in one postcondition; is_vowel/is_kar proved equal to their sets.',
        'note': COMMON_TRUST + 'include_from_dictionary (regex) is T2: assumed contract ph_dict; ASCII byte/char bridge axioms for &s[a..b].',
    },
    'C09': {
        'bounded': ['learn_recall', 'update_engine', 'user_files'],
        'level': 'proof',
        'units': ['pmeth', 'phon', 'split', 'data'],
        'technique': 'Verus: functional postconditions of candidate_committed (store update + save attempt) and get_prev_selection (looked-up text, first index, derived entry) over String-keyed map views',
        'claim': 'Commit side: committing the preselected candidate (or with suggestions off) leaves the store unchanged; otherwise exactly one entry is written (word part of the typed text -> word part, colon mode, of the committed candidate), all other entries untouched, and a save of the WHOLE new store to the selection file is attempted (marker predicate), independent of the save result.  Look-up side: get_prev_selection is proved to return the index of the first candidate whose text is wrapping punctuation + learned text of the word part, or -- when the word has no entry of its own -- + the learned text of a base joined (same three rules as C08) with the first known suffix, shortest first; a derived text is stored for the word part itself without the punctuation, nothing else changes, and that write is idempotent for later look-ups (lemma).  The preselected index returned by key and backspace events is proved to be this function of (text, configuration, data, user list, learned selections).  Restart, read side: PhoneticMethod::new is proved to hold, under every option setting, exactly the store the selection file of the configuration denotes (load marker; missing or damaged file = empty store).',
        'note': COMMON_TRUST + 'Not proved: the round-trip lemma (the word part, colon mode, of a candidate p+core+t re-wrapped equals the candidate) and uniqueness-based conclusion "points at that same candidate" -- covered by the bounded check learn_recall (same context, restart, suffixed forms, punctuated first typing); serde round trip and disk atomicity are not decided.',
    },
    'C10': {
        'bounded': ['user_files', 'update_engine'],
        'level': 'proof',
        'units': ['pmeth', 'phon', 'data'],
        'technique': 'Verus with adversarial environment stubs: fs/serde/time functions may fail or return anything; unwrap preconditions must hold for every outcome',
        'claim': 'Proof that PhoneticMethod::new, update_engine and candidate_committed are panic-free when every file-system and JSON operation may fail or return arbitrary maps (including empty strings), that the invariants hold afterwards for every outcome, and that the suffix/selection code never unwraps on values taken from those maps.',
        'note': COMMON_TRUST + 'Assumed: metadata()/modified() of a just-opened file succeed; serde_json::to_string of a string map succeeds; read() of an open file does not fail.',
    },
    'C11': {
        'bounded': ['update_engine'], 'static': ['no_option_fields', 'context_glue'],
        'level': 'proof',
        'units': ['pmeth', 'fixed_session', 'data', 'phon'],
        'technique': 'Verus: update_engine re-establishes the memo invariant w.r.t. the reloaded list; methods hold no option state (all contracts are functions of the config argument)',
        'claim': 'Proof that after update_engine the memo is transparent w.r.t. the user list then in force for every data set (so no stale candidate survives a reload or a removed file), that the user list afterwards is what a new context would load (file gone: empty; file newer than the copy held: its content, re-read; otherwise unchanged -- stated with load / time-stamp markers) and that PhoneticMethod::new loads it the same way, that FixedMethod::update_engine changes nothing, and that every operation contract depends on options only through its config argument (the method structs have no option fields).',
        'note': COMMON_TRUST + 'Layout switch and storing the new config happen in src/context.rs (pinned glue); an edit that does not advance the modification time is invisible by design (mtime granularity); assumption: no existing file is dated exactly the Unix epoch (the code\'s own "no file" marker); Data::new is proved to load the three tables of the data directory whatever the options are (update_engine never reloads them); the bounded check update_engine additionally compares every ordered pair of a five-configuration family (phonetic with / without suggestions, Probhat with the number pad on / off, synthetic layout) against a new context.',
    },
    'C12': {
        'bounded': ['fixed_rules', 'update_engine'],
        'level': 'proof',
        'units': ['fixed_pkv_off', 'fixed_session'],
        'technique': 'Verus contracts on the extracted real process_key_value vs a rule-chain spec function c12()',
        'claim': 'Deductive proof that the real process_key_value satisfies for ALL buffers, key values and the 16 option settings buffer\' == c12(buffer, value, options), c12 being the priority chain of the statement; character classes and the punctuation set proved equal to explicit sets; backspace removes exactly the last code point.',
        'note': COMMON_TRUST + 'The transcription of the statement into c12() is hand-written.',
    },
    'C13': {
        'bounded': ['reph', 'backspace_step', 'update_engine'],
        'level': 'proof',
        'units': ['fixed_reph', 'fixed_pkv_off', 'fixed_pkv_common'],
        'technique': 'Verus loop invariant tying the real right-to-left scan to a recursive scan spec; conservation postcondition; dispatch clauses',
        'claim': 'Proof that insert_old_style_reph turns p into p with reph inserted at exactly one position (nothing else changed, never panics, also for empty p); that the real right-to-left loop computes the scan specification; spec-level induction (lemma_reph_placement) that for every text in which each hasanta follows a consonant the scan position equals the position the statement prescribes (before the final conjunct C(HC)* when the text ends in conjunct [vowel] [chandrabindu], else the end); and that the reph key reaches this function exactly when the option is on (plain append otherwise).',
        'note': COMMON_TRUST + 'internal_backspace_step (chars().rev().take(n).fold(closure) + truncate) is proved in the same unit against `drop the last min(n, len) code points` (std contracts for Take::fold with a closure, String::len and String::truncate in UTF-8 byte offsets are T3 axioms; the bounded check backspace_step stays as a cross-check of them); well-formedness used by the placement clause: every hasanta follows a consonant; joiners are not part of a conjunct (literal reading of the statement).',
    },
    'C14': {
        'bounded': ['fixed_rules', 'fixed_api', 'update_engine'],
        'level': 'proof',
        'units': ['fixed_pkv_on', 'fixed_session'],
        'technique': 'Verus: process_key_value with the option on == transition function step_on (pending-sign state machine); termination; session/backspace clauses',
        'claim': 'Proof that with the option on every key is exactly one step of the pending-sign state machine written from the statement (capture, carry across hasanta, re-attach, two-part fusion, destroy-or-vowelise), that the recursion terminates, that a waiting sign counts as a session (under every setting of the other helpers) and is discarded by one backspace.  Word level (spec-level theorem lemma_c14_word over the two proved step functions, by induction over syllables and conjunct length): for every word made of syllables conjunct C(HC)* + optional vowel sign, typed from any text that does not end in hasanta, typewriter order with the option on (left-standing sign first; ো / ৌ as ে before + া / ৌ after, or the AU length mark) yields exactly the text of Unicode order with the option off, under every setting of the other helper options, and leaves no sign waiting.',
        'note': COMMON_TRUST + 'The word-level theorem covers key values of one code point each and consonants of the explicit consonant set; fused layout values and words that start right after a hasanta are only in the bounded check fixed_rules (typewriter-order vs Unicode-order typing of syllable words); the ra + zo-fola defect found this way is repaired in /repo (known_findings.json).',
    },
    'C15': {
        'bounded': ['fixed_api', 'update_engine', 'fixed_dict'], 'data': ['tables'], 'kani': ['k_keycode_to_char'],
        'level': 'proof',
        'units': ['fixed_session', 'fixed_search', 'data'],
        'technique': 'Verus: functional postcondition list == fx_list(text, raw keys, options, data) for create_dictionary_suggestion, with lemma 1 <= len <= 9',
        'claim': 'Proof that the fixed-method list is exactly: First(word) + dictionary matches, adjacent duplicates removed, wrapped in the (curled) punctuation, emoji added, sorted, cut to nine (eight + raw keys when English is on and the text differs from the keys), for all inputs.  Statement clauses at spec level (lemma_c15_list over that function): the first candidate is the composed text with curling applied (the only First-ranked item, whatever the unstable sort does with ties), non-emoji candidates are in non-decreasing rank number (10 x distance), the raw key text is last when English is on and the text differs from the keys, between one and nine candidates.',
        'note': COMMON_TRUST + 'search_dictionary and clean_string are PROVED in unit fixed_search on the real body (fx_dict is defined as sd_list: the words of the first-letter table, in table order, that the pattern ^<cleaned key>[letters]{0,n}$ matches, each as Other(form, 10 x edit distance from the typed word), form = non-joiner before every u / uu / ri sign with traditional joining); lemma_sd_list_sound: every such candidate is a dictionary word that begins with the typed word once the ignored punctuation is removed.  Assumed there (T3): the regex crate (a cleaned key gives a pattern that compiles; a match of the anchored pattern has the key as a prefix -- stated for the pinned format string only), the edit-distance crate, Vec::extend over a Map drains it and applies the closure in order, chars().any as a same-bodied wrapper; data precondition: 10 x distance of a hit fits u8.  The bounded check fixed_api stays as an independent cross-check of these assumptions (regex-special punctuation inside the word, hasanta-final words); ordering rests on one axiom about std sort_unstable (sorted permutation w.r.t. the proved comparator key; nothing assumed about ties) + data preconditions (distance <= 25, at most 255 emoji per Bengali name; both validated on the files / crate sources on every run).  The bounded check fixed_dict types the words of dictionary.json through a generated layout (data-exhaustive in the thorough tier) against oracles that do not call the engine: the dictionary file, the edit-distance crate, the emojicon sources.  Kani k_keycode_to_char (complete over u16) backs the raw key text.',
    },
    'C16': {
        'bounded': ['ansi', 'fixed_api', 'phonetic_api', 'update_engine', 'fixed_dict'], 'ffi_native': ['ffi_life_cycles_native'],
        'level': 'proof',
        'units': ['rank', 'fixed_session', 'phon', 'pmeth'],
        'technique': 'Verus: ANSI clauses of the list functions, get_pre_edit_text == bijoy(candidate) / candidate, option getter',
        'claim': 'Proof that in ANSI mode neither method adds emoji, emoticon or raw-English candidates (English getter = option and not ANSI), that every Suggestion carries the ANSI flag of the configuration, and that pre-edit text is bijoy(candidate) with the flag and the candidate itself without.',
        'note': COMMON_TRUST + 'Statements about poriborton output (no Bengali-block code point, totality on the dictionary) are not decided by proof; the converter is NOT total: open known finding C16-ansi-vocalic-rr (it panics on the vowel sign U+09C4), carved out of the bounded key sweep in check ansi, which reports every other failing read-out.',
    },
    'C17': {
        'bounded': ['smart_quote', 'split', 'update_engine'],
        'level': 'proof',
        'units': ['util', 'fixed_session', 'phon', 'split', 'pmeth'],
        'technique': 'Verus: smart_quoter == pointwise curl maps with loop invariants; placement clause (applied once, after splitting, only with the option on) in both list functions',
        'claim': 'Proof that smart_quoter maps straight quotes before a non-empty word to opening and after it to closing curved quotes and changes nothing else (nothing at all for punctuation-only text), and that both methods apply it exactly when the option is on, to the split parts that every non-raw candidate is wrapped in.  Relational clause at spec level over the proved list functions: lemma_c17_fixed (fixed method, every text) and lemma_c17_phonetic (phonetic method, every text whose raw form coincides with no other candidate -- the complement is the recorded known finding): the list with the option on and the list with it off have the same length and, position by position, the same rank and the same text once curly quotes are mapped back.',
        'note': COMMON_TRUST + 'The relational lemmas rest on one more axiom about std sorts: a comparison sort sees its elements only through the comparator (proved to be a function of the rank tags), so the arrangement it chooses is a function of the tag sequence.  Equality of the preselected index under the two settings is not a lemma (bounded check smart_quote).',
    },
    'C18': {
        'bounded': ['emoji_tables', 'phonetic_api', 'update_engine', 'fixed_api'], 'data': ['tables'], 'kani': ['k_keycode_to_char'],
        'level': 'proof',
        'units': ['fixed_session', 'phon', 'rank', 'data', 'pmeth'],
        'technique': 'Verus: emoticon / emoji-name clauses of the assembled list, with the real zip(1..).map(closure) + extend code verified in place',
        'claim': 'Proof, for both methods, of the emoticon branch (emoji pushed with rank 1; in phonetic mode the literal text kept unless it is the transliteration itself) and of the emoji-name branch on the REAL code: every emoji the table lists for the word part (English name in phonetic mode, Bengali name in fixed mode) is appended in table order, the k-th with rank k, each wrapped in the same (curled) punctuation as every other candidate, only outside ANSI mode and only if no emoticon matched; the returned list is the (stable / unstable) sort of that assembly, so the non-emoji candidates keep their relative order (C07 / C15 lemmas); Rank::cmp is proved to order two emoji by their number, hence (lemma_c18_fixed_order) the emoji of the fixed list are in table order whatever the unstable sort does with ties, each being the k-th table emoji wrapped like the word, and the cut at nine keeps the first ones. Bounded: every Bengali name typed through a generated layout, every English name and emoticon, expected lists read from the emojicon sources independently of the engine look-ups.',
        'note': COMMON_TRUST + 'The two five-line regions are no longer abstracted: the closure body (Rank::emoji_ranked(format!(...), r)) is verified against its ensures; the rewrites are mechanical (D14: the closure is bound to a local and its tuple pattern opened by a let, because Verus cannot quantify over an anonymous closure). Assumed (T3): std contracts for Iterator::zip / map (vstd), Vec::extend over a Map (applies the closure front to back and appends), RangeFrom<u8> yields start, start+1, ...; the emojicon crate (two constant tables, three look-ups: unit data proves that Data::new stores the constant tables whatever the configuration and that the three Data look-ups pass the word on unchanged to the table of the method) with the data precondition of fewer than 256 emoji per name, validated on the emojicon sources by tools/data_pre.py.',
    },
    'C19': {
        'kani': ['k_ffi_config_lifecycle', 'k_ffi_null_free', 'k_keycode_to_char'], 'miri': ['ffi_life_cycles'], 'ffi_native': ['ffi_life_cycles_native'], 'static': ['no_shared_state'],
        'level': 'proof',
        'units': ['layout'],
        'technique': 'Kani harnesses on the real unsafe FFI code (complete finite proofs) + Verus NUL-freedom of key characters; Miri-executed life cycles as bounded stand-in for strings, context handles and leaks',
        'claim': 'Kani proves on the real ffi.rs (no unwinding bound needed beyond the 11-option loop): riti_config_new returns a non-null exclusively owned handle, any two setter calls change exactly their options and the Rust getters report them, riti_config_free releases it, and freeing a null config/suggestion/context/string is a no-op; Verus+Kani prove that every key character is NUL-free ASCII.  Everything else the statement names (string read-outs equal to the Rust values and NUL-terminated, independence from later context calls and from freeing the context, no invalid access, no leak) is only checked by executing fixed FFI life cycles under Miri and as a native test binary (system allocator: freed addresses are reused at once; a per-thread counting allocator shows that live heap bytes do not grow from one complete life cycle to the next, which also sees memory that stays reachable from a process-wide table; a data directory with a non-UTF-8 byte inside a JSON string is either refused or yields only valid UTF-8 strings) -- bounded stand-ins, not proofs.  The static scan (unsafe only in ffi.rs, no process-wide mutable state) backs the memory-safety argument: if it fails the property is undecided.',
        'note': COMMON_TRUST + 'Kani cannot run CString::from_raw (strlen), CStr::from_ptr, file loading or HashMap::new, and its two suggestion-string harnesses do not terminate within 25 minutes here, so they are not registered; Verus raw-pointer permissions would require rewriting ffi.rs.  The Miri stand-in covers the call sequences of miri/verif_ffi_miri.rs only.',
    },
}

NOT_YET = {}

# external_body stubs that are only the CALLERS' view of a function whose real body is proved in another unit (against the same
# contract text): listed in the evidence as such, not as assumptions
PROVED_IN = {
    'split': 'split', 'search_dictionary': 'fixed_search', 'get_words_for': 'data', 'find_suffix': 'data', 'get_emoji_by_emoticon': 'data', 'get_emoji_by_name': 'data', 'get_emoji_by_bengali': 'data', 'get_user_phonetic_selection_data': 'data (path = user_dir.join("phonetic-candidate-selection.json"))', 'get_user_phonetic_autocorrect': 'data (path = user_dir.join("autocorrect.json"))',
    'search_corrected': 'data (the ASCII clause is a data precondition, validated by tools/data_pre.py)',
    'process_key_value': 'fixed_pkv_off / fixed_pkv_on / fixed_pkv_common', 'insert_old_style_reph': 'fixed_reph',
    'get_char_for_key': 'layout', 'layout_get_value': 'layout_get', 'layout_get_value_numpad': 'layout_get',
    'keycode_to_char': 'layout (+ Kani k_keycode_to_char)', 'get_modifiers': 'layout (+ Kani k_modifiers_plane)',
    'suggest': 'phon', 'suggest_only_phonetic': 'phon',
}


def units_for(prop, tier):
    p = PLAN[prop]
    u = list(p.get('units', []))
    if tier == 'thorough':
        u += [x for x in p.get('thorough_units', []) if x not in u]
    return u
