"""Which machinery decides which property (the single source for ./check and MANIFEST.json)."""

# unit -> short description (units live in spec/units/<unit>.vrs)
UNITS = {
    'fixed_pkv_off': 'FixedMethod::process_key_value, old vowel-sign order off, vs the C12 rule chain',
    'fixed_pkv_on': 'FixedMethod::process_key_value, old vowel-sign order on, vs the C14 transition function',
}

# property -> plan
PLAN = {
    'C12': {
        'level': 'proof',
        'units': ['fixed_pkv_off'],
        'thorough_units': [],
        'kani': [],
        'bounded': [],
        'technique': 'Verus contracts on the extracted real process_key_value vs a rule-chain spec function',
        'claim': 'Deductive proof (Verus/Z3) that the real process_key_value, cut out of /repo on every run, satisfies for ALL buffers, key values and option settings the postcondition buffer\' == c12(buffer, value, options) written from the property statement; character-class predicates proved equal to explicit sets.',
        'note': 'Trusted: Verus/Z3/rustc, the extractor (round-trip checked), std contracts added by assume_specification (Chars::last/count, Rev::nth, str::contains), the transcription of the statement into c12(); reph branch is an uninterpreted function here (C13).',
    },
}

NOT_YET = {}


def units_for(prop, tier):
    p = PLAN[prop]
    u = list(p.get('units', []))
    if tier == 'thorough':
        u += [x for x in p.get('thorough_units', []) if x not in u]
    return u
