"""Bounded stand-ins (driver), Kani harnesses and static scans, in the result shape ./check expects."""
import json
import os
import re
import subprocess
import sys
import threading
import time

ROOT = os.path.dirname(os.path.dirname(os.path.abspath(__file__)))
sys.path.insert(0, os.path.join(ROOT, 'tools'))
import driver as DR

_lock = threading.Lock()
_built = {}

# check name -> (quick bound, thorough bound, quick shards, thorough shards)
BOUNDS = {
    'reph': (6, 9, 8, 16), 'split': (6, 8, 8, 16), 'backspace_step': (8, 11, 1, 1), 'layout_values': (0, 0, 1, 1), 'layout_api': (1, 1, 1, 1),
    'phonetic_api': (1, 2, 8, 16), 'fixed_api': (1, 2, 8, 16), 'history_independence': (1, 2, 1, 1),
    'learn_recall': (1, 1, 1, 1), 'user_files': (1, 2, 1, 1), 'update_engine': (1, 1, 1, 1), 'smart_quote': (1, 2, 1, 1),
    'ansi': (1, 1, 1, 1), 'emoji_tables': (1, 2, 8, 16), 'suffix_forms': (1, 2, 1, 1), 'fixed_rules': (4, 6, 8, 16), 'fixed_dict': (1, 2, 8, 16),
}


def _driver():
    with _lock:
        if 'exe' not in _built:
            try:
                d, exe = DR.build()
                _built['dir'], _built['exe'] = d, exe
            except DR.DriverError as ex:
                _built['error'] = str(ex)
                _built['exe'] = None
        return _built.get('exe'), _built.get('error')


def cleanup():
    with _lock:
        if _built.get('dir'):
            DR.cleanup(_built['dir'])
        _built.clear()


def run_bounded(name, tier, seed):
    t0 = time.time()
    qb, tb, qs, ts = BOUNDS[name]
    bound, shards = (qb, qs) if tier == 'quick' else (tb, ts)
    res = {'status': 'ok', 'violations': [], 'bound': bound, 'cases': 0, 'samples': [], 'trusted': [], 'name': name}
    exe, err = _driver()
    if exe is None:
        res['status'] = 'undecided'
        res['reason'] = 'bounded-check driver does not build against the current tree: ' + (err or '')[-1500:]
        return res
    try:
        try:
            r = DR.run_bounded(exe, name, bound, shards)
        except FileNotFoundError:
            # the private copy of the driver (or its scratch directory) disappeared under us: build it again, once
            with _lock:
                if not (_built.get('exe') and os.path.exists(_built['exe'])):
                    _built.clear()
            exe, err = _driver()
            if exe is None:
                raise
            r = DR.run_bounded(exe, name, bound, shards)
    except DR.DriverCrash as ex:
        # the process died (stack overflow / abort / endless loop killed by the timeout): "returns normally" is violated
        res['status'] = 'fail'
        res['violations'].append({'props': ['C01'], 'unit': 'bounded:' + name, 'function': name, 'kind': 'driver process died',
                                  'clause': 'C01 every in-contract call sequence returns normally', 'rendered': str(ex), 'input': None,
                                  'exit_point': None})
        return res
    except subprocess.TimeoutExpired:
        res['status'] = 'fail'
        res['violations'].append({'props': ['C01'], 'unit': 'bounded:' + name, 'function': name, 'kind': 'timeout',
                                  'clause': 'C01 no unbounded blow-up in time (bounded check exceeded its time limit)', 'rendered': 'timeout', 'input': None, 'exit_point': None})
        return res
    except Exception as ex:
        res['status'] = 'undecided'
        import traceback
        res['reason'] = 'bounded check %s could not run: %r | %s' % (name, ex, traceback.format_exc()[-700:].replace('\n', ' / '))
        return res
    res['cases'] = r['cases']
    res['nontrivial'] = r.get('nontrivial', 0)
    res['domain'] = r.get('domain')
    res['samples'] = [{'bounded_check': name, 'case': s} for s in r.get('samples', [])[:2]]
    res['wall_s'] = time.time() - t0
    seen_clauses = set()
    for f in r.get('failures', []):
        clause = f.get('clause', '')
        if clause in seen_clauses:
            continue
        seen_clauses.add(clause)
        # the properties a clause speaks for: the leading run of Cxx tokens
        m = re.match(r'\s*((?:C\d{2}\s+)+)', clause + ' ')
        props = re.findall(r'C\d{2}', m.group(1)) if m else re.findall(r'\bC\d{2}\b', clause)[:1]
        inp = f.get('history') or {k: v for k, v in f.items() if k not in ('clause',)}
        res['violations'].append({'props': props, 'unit': 'bounded:' + name, 'function': name, 'kind': 'bounded conformance failure',
                                  'clause': clause, 'rendered': json.dumps(f, ensure_ascii=False)[:3000], 'input': inp, 'exit_point': None,
                                  'replay': {'driver': 'history' if isinstance(inp, dict) and 'events' in inp and isinstance(inp.get('events'), list) else 'bounded:' + name,
                                             'expected': f.get('expected'), 'observed': f.get('observed')}})
    if res['violations']:
        res['status'] = 'fail'
    return res


def run_kani(name, tier):
    import kani_run as KR
    hs = [name]
    r = KR.run(hs, timeout=900 if tier == 'quick' else 3600)[name]
    props, complete, desc = KR.HARNESSES[name]
    out = {'status': r['status'], 'violations': [], 'obligations': [], 'samples': [], 'trusted': ['Kani 0.68 / CBMC 6.11'], 'reason': r.get('detail', '')}
    ok = r['status'] == 'ok'
    out['obligations'].append({'id': 'kani/' + name + ' (' + desc + ')', 'discharged': ok, 'backend': 'kani/cbmc' + ('' if complete else ' (bounded: unwind)'),
                               'time_us': int((r.get('time_s') or 0) * 1e6)})
    if r['status'] == 'fail':
        out['violations'].append({'props': props, 'unit': 'kani', 'function': name, 'kind': 'kani check failed', 'clause': desc,
                                  'rendered': (r.get('detail') or '') + '\n' + (r.get('raw') or ''), 'input': None, 'exit_point': None})
    if ok and r.get('unsat_cover'):
        out['status'] = 'undecided'
        out['reason'] = 'a kani::cover! in %s is unsatisfiable (vacuity guard)' % name
    out['samples'].append({'kani_harness': name, 'verdict': r['status'], 'time_s': r.get('time_s')})
    return out


def _ffi_props(raw):
    """the assertions of miri/verif_ffi_miri.rs name the properties they speak for: '[C16 C19] string handed to the C host ...'"""
    import re
    ps = []
    for m in re.finditer(r'\[((?:C\d\d ?)+)\] (?:string handed to the C host|live heap bytes grow)', raw or ''):
        for x in m.group(1).split():
            if x not in ps:
                ps.append(x)
    return sorted(ps) if ps else ['C19']


def run_miri(name, tier):
    import miri_run as MR
    r = MR.run(timeout=1500 if tier == 'quick' else 5400, tier=tier)
    out = {'status': r['status'], 'violations': [], 'obligations': [], 'samples': [], 'trusted': ['Miri (nightly)'], 'reason': r.get('detail', ''),
           'bound': 'fixed call sequences (%s tier)' % tier, 'cases': r.get('tests', 0), 'wall_s': r.get('wall_s', 0), 'name': 'miri_ffi',
           'domain': 'FFI life cycles (config, context, key/backspace/commit/update events, every read-out, frees; read-outs re-read after the context is freed) executed under Miri: memory safety, UTF-8/NUL checks against the Rust API, leak check at exit'}
    if r['status'] == 'fail':
        out['violations'].append({'props': _ffi_props(r.get('raw', '')), 'unit': 'miri', 'function': 'verif_ffi_miri', 'kind': 'Miri reported an error', 'clause': 'C19 life cycle performs no invalid memory access and leaks nothing; strings equal the Rust API values',
                                  'rendered': r.get('raw', '')[-3500:], 'input': {'miri_test': 'miri/verif_ffi_miri.rs', 'tier': tier, 'error': r.get('detail', '')[:600]}, 'exit_point': None})
    out['samples'].append({'miri_test': 'ffi_life_cycles + ffi_fixed_life_cycle + ffi_reconfigure_life_cycle', 'verdict': r['status'], 'wall_s': round(r.get('wall_s', 0))})
    return out


def run_ffi_native(name, tier):
    import miri_run as MR
    r = MR.run(timeout=900, tier=tier, native=True)
    out = {'status': r['status'], 'violations': [], 'obligations': [], 'samples': [], 'trusted': [], 'reason': r.get('detail', ''),
           'bound': 'fixed call sequences (%s tier), native allocator' % tier, 'cases': r.get('tests', 0), 'wall_s': r.get('wall_s', 0), 'name': 'ffi_native',
           'domain': 'the FFI life cycles of miri/verif_ffi_miri.rs as an ordinary test binary: every C string compared with the Rust API value after every event, with the system allocator (freed suggestion addresses are reused at once)'}
    if r['status'] == 'fail':
        pr = _ffi_props(r.get('raw', ''))
        out['violations'].append({'props': pr, 'unit': 'ffi_native', 'function': 'verif_ffi_miri', 'kind': 'FFI life cycle failed natively', 'clause': ' '.join(pr) + ' every returned string equals the value the Rust API reports; pointers are unaffected by later calls',
                                  'rendered': r.get('raw', '')[-3500:], 'input': {'test': 'miri/verif_ffi_miri.rs (native)', 'tier': tier, 'error': r.get('detail', '')[:600]}, 'exit_point': None})
    out['samples'].append({'native_ffi_test': 'ffi life cycles', 'verdict': r['status'], 'wall_s': round(r.get('wall_s', 0))})
    return out


def run_static(name):
    import static_scans as SS
    return SS.run(name)


def run_data(name):
    import data_pre as DP
    return DP.run(name)


def replay(path):
    """re-execute a stored violation / finding against /repo's current tree"""
    rp = json.load(open(path))
    inp = rp.get('input')
    print('property: %s' % rp.get('property'))
    print('failed obligation: %s' % json.dumps(rp.get('failed_obligation'), ensure_ascii=False))
    if not (isinstance(inp, dict) and isinstance(inp.get('events'), list)):
        print('no executable input is attached to this replay (the verifier gave no counterexample); verifier output:')
        print((rp.get('verifier_output') or '')[:4000])
        return 0
    exe, err = _driver()
    if exe is None:
        print('driver does not build: ' + (err or ''))
        return 2
    try:
        h = dict(inp)
        h.setdefault('user_dir', '/tmp/riti-verif-replay-%d' % os.getpid())
        h.pop('keep_files', None)
        r = DR.run_histories(exe, [h])[0]
        print('observed on the current tree: ' + json.dumps(r, ensure_ascii=False)[:6000])
        exp = (rp.get('replay') or {}).get('expected')
        if exp is not None:
            print('expected by the contract: ' + json.dumps(exp, ensure_ascii=False)[:2000])
    finally:
        cleanup()
    return 0


def known_finding_status(kf):
    """re-execute the concrete input of an open known finding against the current tree"""
    cond = kf.get('still_fails_if')
    if not cond:
        return 'not re-executed'
    hs = [json.loads(l) for l in open(os.path.join(ROOT, 'findings', 'histories.jsonl')) if l.strip()]
    if 'c17_pair' in cond:
        exe, err = _driver()
        if exe is None:
            return 'driver does not build'
        try:
            pair = [dict([x for x in hs if x.get('id') == i][0]) for i in cond['c17_pair']]
            for x in pair:
                x['user_dir'] = '/tmp/riti-verif-kf-%d' % os.getpid()
            ra, rb = DR.run_histories(exe, pair)
            import shutil
            shutil.rmtree(pair[0]['user_dir'], ignore_errors=True)
            unc = lambda t: t.replace('\u2018', "'").replace('\u2019', "'").replace('\u201c', '"').replace('\u201d', '"')
            la = [unc(t) for t in ra['trace'][-1].get('list', [])]
            lb = rb['trace'][-1].get('list', [])
            if la != lb:
                return 're-executed on the current tree: still fails (on, quotes mapped back: %r; off: %r)' % (la, lb)
            return 're-executed on the current tree: no longer fails'
        except Exception as ex:
            return 're-execution failed: %r' % (ex,)
    h = [x for x in hs if x.get('id') == cond['history']]
    if not h:
        return 'history not found'
    exe, err = _driver()
    if exe is None:
        return 'driver does not build'
    try:
        hh = dict(h[0])
        hh['user_dir'] = '/tmp/riti-verif-kf-%d' % os.getpid()
        r = DR.run_histories(exe, [hh])[0]
        import shutil
        shutil.rmtree(hh['user_dir'], ignore_errors=True)
        if cond.get('panics'):
            if r.get('panic') is not None:
                return 're-executed on the current tree: still fails (panic: %s)' % (str(r.get('panic'))[:120],)
            return 're-executed on the current tree: no longer fails'
        (a, fa), (b, fb) = cond['trace_fields_differ']
        va, vb = r['trace'][a].get(fa), r['trace'][b].get(fb)
        if r.get('panic') is None and va != vb:
            return 're-executed on the current tree: still fails (%r vs %r)' % (va, vb)
        return 're-executed on the current tree: no longer fails'
    except Exception as ex:
        return 're-execution failed: %r' % (ex,)
