"""Rust-aware lexical scanner and item extractor (no semantic knowledge).

Everything here works on bytes-as-str of /repo source files.  It understands just
enough of Rust's lexical structure to never be fooled by braces, keywords or
semicolons inside comments, strings, raw strings and char literals.
"""
import re


class ExtractError(Exception):
    """Raised when an item/anchor cannot be located (-> check is *undecided*)."""


_RAW = re.compile(r'b?r(#*)"')
_CHAR = re.compile(r"'(\\u\{[0-9a-fA-F_]+\}|\\x[0-9a-fA-F]{2}|\\.|[^'\\\n])'")


def lex_skip(src, i):
    """If a comment / string / char literal starts at i return the index just
    after it, else None."""
    c = src[i]
    if c == '/':
        if src.startswith('//', i):
            j = src.find('\n', i)
            return len(src) if j < 0 else j
        if src.startswith('/*', i):
            d, j = 1, i + 2
            while d > 0:
                if j >= len(src):
                    raise ExtractError('unterminated block comment')
                if src.startswith('/*', j):
                    d += 1
                    j += 2
                elif src.startswith('*/', j):
                    d -= 1
                    j += 2
                else:
                    j += 1
            return j
        return None
    if c == '"' or (c == 'b' and src.startswith('b"', i) and not _ident_before(src, i)):
        j = i + (2 if c == 'b' else 1)
        while src[j] != '"':
            if src[j] == '\\':
                j += 1
            j += 1
        return j + 1
    if c in 'rb' and not _ident_before(src, i):
        m = _RAW.match(src, i)
        if m:
            end = '"' + m.group(1)
            j = src.find(end, m.end())
            if j < 0:
                raise ExtractError('unterminated raw string')
            return j + len(end)
        return None
    if c == "'":
        m = _CHAR.match(src, i)
        if m:
            return m.end()
        return i + 1  # lifetime / label
    return None


def _ident_before(src, i):
    return i > 0 and (src[i - 1].isalnum() or src[i - 1] == '_')


def code_mask(src):
    """list of booleans: True where the character is code (not comment/string/char)."""
    mask = [True] * len(src)
    i = 0
    n = len(src)
    while i < n:
        k = lex_skip(src, i)
        if k is not None and k > i + (1 if src[i] == "'" and k == i + 1 else 0):
            for t in range(i, k):
                mask[t] = False
            i = k
        elif k is not None:
            i = k
        else:
            i += 1
    return mask


def match_close(src, i, open_c='{', close_c='}'):
    """index of the bracket matching the one at i."""
    assert src[i] == open_c, (src[i:i + 20], open_c)
    d = 0
    j = i
    n = len(src)
    while j < n:
        k = lex_skip(src, j)
        if k is not None:
            j = k
            continue
        c = src[j]
        if c == open_c:
            d += 1
        elif c == close_c:
            d -= 1
            if d == 0:
                return j
        j += 1
    raise ExtractError('unbalanced ' + open_c)


def find_code(src, rx, start=0, end=None):
    """first regex match at a *code* position >= start (skipping comments/strings)."""
    if isinstance(rx, str):
        rx = re.compile(rx)
    j = start
    end = len(src) if end is None else end
    while j < end:
        k = lex_skip(src, j)
        if k is not None:
            j = k
            continue
        m = rx.match(src, j)
        if m and not _ident_before(src, j):
            return m
        j += 1
    return None


def find_all_code(src, rx, start=0, end=None):
    if isinstance(rx, str):
        rx = re.compile(rx)
    out = []
    j = start
    end = len(src) if end is None else end
    while j < end:
        k = lex_skip(src, j)
        if k is not None:
            j = k
            continue
        m = rx.match(src, j)
        if m and not _ident_before(src, j):
            out.append(m)
            j = max(m.end(), j + 1)
            continue
        j += 1
    return out


def body_open(src, p, end=None):
    """from p scan forward (code only) to the '{' that opens the item body or the ';'
    that ends a body-less item.  Parentheses/brackets/angle-free: generics with braces
    (const generics blocks) do not occur in riti."""
    end = len(src) if end is None else end
    depth_paren = 0
    while p < end:
        k = lex_skip(src, p)
        if k is not None:
            p = k
            continue
        c = src[p]
        if c in '([':
            depth_paren += 1
        elif c in ')]':
            depth_paren -= 1
        elif c == '{' and depth_paren == 0:
            return p
        elif c == ';' and depth_paren == 0:
            return -p  # negative: ends with ';'
        p += 1
    raise ExtractError('no body')


_VIS = r'(?:pub(?:\s*\([a-z ]+\))?\s+)?'

_KIND_RX = {
    'fn': lambda n: _VIS + r'(?:const\s+)?(?:unsafe\s+)?(?:extern\s+"C"\s+)?fn\s+' + re.escape(n) + r'\b',
    'struct': lambda n: _VIS + r'struct\s+' + re.escape(n) + r'\b',
    'enum': lambda n: _VIS + r'enum\s+' + re.escape(n) + r'\b',
    'trait': lambda n: _VIS + r'trait\s+' + re.escape(n) + r'\b',
    'const': lambda n: _VIS + r'const\s+' + re.escape(n) + r'\b',
    'type': lambda n: _VIS + r'type\s+' + re.escape(n) + r'\b',
    'mod': lambda n: _VIS + r'mod\s+' + re.escape(n) + r'\b',
}


def _impl_rx(header):
    # header e.g. "impl Method for FixedMethod", "impl SplittedString<'_>", "impl dyn Method"
    toks = header.split()
    return r'\s+'.join(re.escape(t) for t in toks) + r'\s*(?=\{|where\b)'


def locate(src, path, start=0, end=None):
    """path: list of components like ['impl Method for FixedMethod', 'fn get_suggestion'].
    Returns (item_start, item_end, body_open_index or None)."""
    lo, hi = start, (len(src) if end is None else end)
    res = None
    for idx, comp in enumerate(path):
        comp = comp.strip()
        if comp.startswith('range '):
            # "range <item> .. <item>": from the start of the first to the end of the second
            a, _, b = comp[6:].partition('..')
            s1 = locate(src, [a.strip()], lo, hi)
            s2 = locate(src, [b.strip()], lo, hi)
            if s2[1] < s1[0]:
                raise ExtractError('empty range: ' + comp)
            res = (s1[0], s2[1], None)
            lo, hi = res[0], res[1]
            continue
        if comp.startswith('impl'):
            rx = _impl_rx(comp)
        else:
            kind, _, name = comp.partition(' ')
            if kind not in _KIND_RX:
                raise ExtractError('unknown item kind: ' + comp)
            rx = _KIND_RX[kind](name.strip())
        m = _find_at_depth(src, re.compile(rx), lo, hi)
        if m is None:
            raise ExtractError('item not found: ' + ' :: '.join(path[:idx + 1]))
        bo = body_open(src, m.end(), hi)
        if bo < 0:
            res = (m.start(), -bo + 1, None)
            lo, hi = m.start(), -bo + 1
        else:
            e = match_close(src, bo)
            res = (m.start(), e + 1, bo)
            lo, hi = bo + 1, e
    return res


def _find_at_depth(src, rx, lo, hi):
    """find rx at brace depth 0 relative to [lo,hi), skipping #[cfg(test)] modules
    implicitly because they are at depth>0 inside `mod tests {`."""
    j = lo
    d = 0
    while j < hi:
        k = lex_skip(src, j)
        if k is not None:
            j = k
            continue
        c = src[j]
        if c == '{':
            d += 1
        elif c == '}':
            d -= 1
        elif d == 0:
            m = rx.match(src, j)
            if m and not _ident_before(src, j):
                return m
        j += 1
    return None


_LOOP_RX = re.compile(r'(for|while|loop)\b')


def loops(src, lo, hi):
    """lexical list of loops in src[lo:hi]: (kw_start, kw, body_open)."""
    out = []
    for m in find_all_code(src, _LOOP_RX, lo, hi):
        # `for` in `impl X for Y` / HRTB does not occur inside fn bodies in riti
        bo = _loop_body_open(src, m.end(), hi)
        out.append((m.start(), m.group(1), bo))
    return out


def _loop_body_open(src, p, hi):
    # the loop body is the first '{' at paren depth 0 that is not part of a struct
    # literal; riti has no struct literals in loop headers.
    depth = 0
    while p < hi:
        k = lex_skip(src, p)
        if k is not None:
            p = k
            continue
        c = src[p]
        if c in '([':
            depth += 1
        elif c in ')]':
            depth -= 1
        elif c == '{' and depth == 0:
            return p
        p += 1
    raise ExtractError('loop without body')


def normalise(text):
    """whitespace- and comment-insensitive normal form used for pinning regions."""
    out = []
    i = 0
    n = len(text)
    while i < n:
        if text.startswith('//', i) or text.startswith('/*', i):
            i = lex_skip(text, i)
            continue
        k = lex_skip(text, i)
        if k is not None and k > i + 1:
            out.append(text[i:k])
            i = k
            continue
        if text[i].isspace():
            if out and out[-1] != ' ':
                out.append(' ')
            i += 1
            continue
        out.append(text[i])
        i += 1
    return ''.join(out).strip()
