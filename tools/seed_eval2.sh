#!/bin/bash
# usage: seed_eval2.sh <seed id> <prop> [more props...]
# like seed_eval.sh, but never touches /repo's working tree: the patch is applied to a scratch worktree and the checks
# run with VERIF_REPO pointing at it (so it can be used while other jobs read /repo)
id=$1; shift
wt=/tmp/seedeval-wt
git -C /repo worktree remove --force $wt >/dev/null 2>&1
git -C /repo worktree add -q --detach $wt HEAD || exit 3
git -C $wt apply /verif/seeded/$id/patch.diff || { echo "patch does not apply"; git -C /repo worktree remove --force $wt; exit 3; }
cd /verif
for p in "$@"; do
  out=$(VERIF_REPO=$wt ./check $p 2>&1); rc=$?
  echo "[$id] check $p -> exit $rc"; echo "$out" | grep -E "^VIOLATION|^UNDECIDED|obligation:|tier=" | cut -c1-260
done
git -C /repo worktree remove --force $wt
git -C /repo worktree prune
