"""Syntactic scans that back the frame arguments of DESIGN.md (6.6, 6.9, C11).  They never raise a
violation: a scan that no longer holds makes the property *undecided*."""
import hashlib
import os
import re
import sys

ROOT = os.path.dirname(os.path.dirname(os.path.abspath(__file__)))
sys.path.insert(0, os.path.join(ROOT, 'tools'))
import rsx

REPO = os.environ.get('VERIF_REPO', '/repo')
# normalised text of src/context.rs without its test module (pinned glue, DESIGN 2)
CONTEXT_PIN = None


def _src(rel):
    return open(os.path.join(REPO, rel), encoding='utf-8').read()


def _strip_tests(txt):
    i = txt.find('#[cfg(test)]\nmod tests')
    return txt if i < 0 else txt[:i]


def run(name):
    res = {'status': 'ok', 'violations': [], 'obligations': [], 'samples': [], 'trusted': []}
    try:
        if name == 'no_shared_state':
            bad = []
            for dp, _, fs in os.walk(os.path.join(REPO, 'src')):
                for f in fs:
                    if not f.endswith('.rs'):
                        continue
                    rel = os.path.relpath(os.path.join(dp, f), REPO)
                    txt = _strip_tests(_src(rel))
                    mask = rsx.code_mask(txt)
                    for m in re.finditer(r'\bstatic\s+(mut\s+)?[A-Z_]+\s*:|thread_local!|lazy_static!|\bOnceCell\b|\bOnceLock\b|\bLazyLock\b|\bunsafe\b', txt):
                        if not mask[m.start()]:
                            continue
                        if m.group(0) == 'unsafe' and rel == 'src/ffi.rs':
                            continue
                        bad.append('%s: %s' % (rel, m.group(0)))
            ok = not bad
            res['obligations'].append({'id': 'scan/no process-wide mutable state, unsafe only in ffi.rs', 'discharged': ok, 'backend': 'syntactic scan', 'time_us': 0})
            if not ok:
                res['status'] = 'undecided'
                res['reason'] = 'process-wide state or unsafe outside ffi.rs: ' + '; '.join(bad[:6])
        elif name == 'context_glue':
            txt = rsx.normalise(_strip_tests(_src('src/context.rs')))
            h = hashlib.sha256(txt.encode()).hexdigest()[:16]
            pin = open(os.path.join(ROOT, 'spec', 'context_glue.pin')).read().strip()
            ok = h == pin
            # shape check of the forwarders
            shape = all(re.search(r'fn\s+%s\b[^{]*\{\s*self\.method\s*\.\s*borrow(_mut)?\(\)\s*\.\s*%s\(' % (f, f), _src('src/context.rs'))
                        for f in ('candidate_committed', 'ongoing_input_session', 'finish_input_session', 'backspace_event'))
            res['obligations'].append({'id': 'scan/context.rs forwarders are the pinned glue (%s)' % h, 'discharged': ok and shape, 'backend': 'syntactic scan + hash pin', 'time_us': 0})
            if not (ok and shape):
                res['status'] = 'undecided'
                res['reason'] = 'src/context.rs differs from the pinned glue (hash %s, pinned %s): the properties that cross it are undecided' % (h, pin)
        elif name == 'no_option_fields':
            bad = []
            for rel, st in (('src/fixed/method.rs', 'FixedMethod'), ('src/phonetic/method.rs', 'PhoneticMethod'), ('src/phonetic/suggestion.rs', 'PhoneticSuggestion')):
                txt = _src(rel)
                s, e, bo = rsx.locate(txt, ['struct ' + st])
                body = txt[bo:e]
                for m in re.finditer(r'(\w+)\s*:\s*([^,\n]+)', body):
                    if re.search(r'\bbool\b|\bConfig\b', m.group(2)):
                        bad.append('%s.%s: %s' % (st, m.group(1), m.group(2).strip()))
            ok = not bad
            res['obligations'].append({'id': 'scan/method structs hold no option state (options are read from the config argument only)', 'discharged': ok, 'backend': 'syntactic scan', 'time_us': 0})
            if not ok:
                res['status'] = 'undecided'
                res['reason'] = 'option-like fields in method state: ' + '; '.join(bad)
        else:
            res['status'] = 'undecided'
            res['reason'] = 'unknown scan ' + name
    except Exception as ex:
        res['status'] = 'undecided'
        res['reason'] = 'scan %s failed: %r' % (name, ex)
    return res
