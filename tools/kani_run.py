"""Run the Kani harnesses on a scratch copy of /repo's current working tree (harness modules are
appended to the copy's source files; /repo itself is never touched)."""
import json
import os
import re
import shutil
import subprocess
import sys
import tempfile
import time

ROOT = os.path.dirname(os.path.dirname(os.path.abspath(__file__)))
sys.path.insert(0, os.path.join(ROOT, 'tools'))
REPO = os.environ.get('VERIF_REPO', '/repo')
TARGET = os.path.join(ROOT, 'build', 'kani-target')

APPEND = {
    'src/ffi.rs': 'hooks_ffi_kani.rs',
    'src/fixed/layout.rs': 'hooks_layout_kani.rs',
}

# harness -> (properties, complete?, description)
HARNESSES = {
    'k_keycode_to_char': (['C01', 'C02', 'C03', 'C04', 'C15', 'C18', 'C19'], True, 'keycode_to_char == riti.h table for all 65536 codes; ASCII, non-NUL'),
    'k_modifiers_plane': (['C04'], True, 'LayoutModifiers::from(get_modifiers(m)) for all 256 modifier bytes'),
    'k_ffi_config_lifecycle': (['C19'], True, 'config handle: non-null, two arbitrary setter calls, getters == model, free'),
    'k_ffi_null_free': (['C19'], True, 'freeing null handles / null string is a no-op'),
    'k_ffi_suggestion_full': (['C19'], False, 'list suggestion read-outs (2 candidates of one symbolic ASCII byte): fresh NUL-terminated copies, valid after free'),
    'k_ffi_suggestion_single': (['C19'], False, 'single suggestion read-outs (one symbolic ASCII byte)'),
}


def esc(c):
    return {'\\': '\\\\', "'": "\\'"}.get(c, c)


def keys_harness():
    import gen_keytable
    rows = gen_keytable.main()
    arms = '\n'.join("            %d => Some('%s')," % (r['code'], esc(r['char'])) for r in rows if r['char'] is not None)
    return '''

// ---- Kani harness, appended to a scratch copy of src/keycodes.rs only (table generated from include/riti.h) ----
#[cfg(kani)]
mod verif_kani_keys {
    use super::*;
    fn key_char(k: u16) -> Option<char> {
        match k {
%s
            _ => None,
        }
    }
    #[kani::proof]
    fn k_keycode_to_char() {
        let k: u16 = kani::any();
        let r = keycode_to_char(k);
        assert!(r == key_char(k));
        if let Some(c) = r {
            assert!(c.is_ascii() && c != '\\0');
        }
        kani::cover!(r.is_none(), "keys without a character exist");
    }
}
''' % arms


def run(harnesses, timeout=1800):
    """returns dict harness -> {'status': 'ok'|'fail'|'undecided', 'detail': str, 'time_s': float}"""
    t0 = time.time()
    d = tempfile.mkdtemp(prefix='riti-verif-kani-', dir=('/var/tmp' if os.access('/var/tmp', os.W_OK) else None))
    out = {}
    try:
        for name in ('src', 'data', 'include', 'Cargo.toml', 'Cargo.lock'):
            s = os.path.join(REPO, name)
            if os.path.isdir(s):
                shutil.copytree(s, os.path.join(d, name))
            elif os.path.exists(s):
                shutil.copy(s, os.path.join(d, name))
        for rel, hook in APPEND.items():
            p = os.path.join(d, rel)
            if not os.path.exists(p):
                return {h: {'status': 'undecided', 'detail': 'missing ' + rel, 'time_s': 0} for h in harnesses}
            with open(p, 'a') as f:
                f.write(open(os.path.join(ROOT, 'kani', hook)).read())
        try:
            kh = keys_harness()
        except Exception as ex:
            return {h: {'status': 'undecided', 'detail': 'key table: %r' % (ex,), 'time_s': 0} for h in harnesses}
        with open(os.path.join(d, 'src', 'keycodes.rs'), 'a') as f:
            f.write(kh)
        env = dict(os.environ)
        env['CARGO_NET_OFFLINE'] = 'true'
        env['CARGO_TARGET_DIR'] = TARGET
        cmd = ['cargo', 'kani', '-Z', 'stubbing', '-Z', 'function-contracts']
        for h in harnesses:
            cmd += ['--harness', h]
        try:
            p = subprocess.run(cmd, cwd=d, env=env, capture_output=True, text=True, timeout=timeout)
        except subprocess.TimeoutExpired:
            return {h: {'status': 'undecided', 'detail': 'kani timeout', 'time_s': timeout} for h in harnesses}
        text = p.stdout + '\n' + p.stderr
        # per-harness verdicts
        # "Checking harness <path>::k_x..."  ... "VERIFICATION:- SUCCESSFUL|FAILED"
        blocks = re.split(r'(?m)^Checking harness ', text)
        seen = {}
        for b in blocks[1:]:
            m = re.match(r'([\w:]+)', b)
            if not m:
                continue
            hname = m.group(1).split('::')[-1]
            if 'VERIFICATION:- SUCCESSFUL' in b:
                st = 'ok'
            elif 'VERIFICATION:- FAILED' in b:
                st = 'fail'
            else:
                st = 'undecided'
            unsat_cover = re.findall(r'(?m)^.*cover.*UNSATISFIABLE.*$|Status: UNSATISFIABLE', b)
            failed = re.findall(r'(?m)^Failed Checks: (.*)$', b)
            tm = re.search(r'Verification Time: ([\d.]+)s', b)
            seen[hname] = {'status': st, 'detail': '; '.join(failed)[:1500], 'time_s': float(tm.group(1)) if tm else None,
                           'unsat_cover': bool(unsat_cover), 'raw': b[-3000:] if st != 'ok' else ''}
        for h in harnesses:
            if h in seen:
                out[h] = seen[h]
            else:
                out[h] = {'status': 'undecided', 'detail': 'no verdict for harness (build error or unsupported construct): ' + text[-2500:], 'time_s': None}
        for h in out:
            out[h]['cmd'] = ' '.join(cmd)
            out[h]['wall_s'] = time.time() - t0
        return out
    finally:
        shutil.rmtree(d, ignore_errors=True)


if __name__ == '__main__':
    hs = sys.argv[1:] or list(HARNESSES)
    r = run(hs)
    for h, v in r.items():
        print(h, v['status'], v.get('time_s'), (v.get('detail') or '')[:1500])
