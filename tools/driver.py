"""Build the replay / bounded-conformance driver against a scratch copy of /repo's current
working tree (hooks injected into the copy only) and run it."""
import json
import os
import shutil
import subprocess
import tempfile
import sys
sys.path.insert(0, os.path.dirname(os.path.abspath(__file__)))

ROOT = os.path.dirname(os.path.dirname(os.path.abspath(__file__)))
REPO = os.environ.get('VERIF_REPO', '/repo')
TARGET = os.path.join(ROOT, 'build', 'cargo-target')
# scratch copies of the repository live outside /repo and /verif; /var/tmp rather than /tmp (a harness may clear /tmp between commands)
SCRATCH_BASE = os.environ.get('VERIF_SCRATCH') or ('/var/tmp' if os.access('/var/tmp', os.W_OK) else tempfile.gettempdir())
os.makedirs(SCRATCH_BASE, exist_ok=True)

APPEND = {
    'src/fixed/method.rs': 'hooks_fixed_method.rs',
    'src/fixed/layout.rs': 'hooks_layout.rs',
    'src/phonetic/mod.rs': 'hooks_phonetic_mod.rs',
}


class DriverError(Exception):
    pass


class DriverCrash(Exception):
    pass


def make_scratch():
    d = tempfile.mkdtemp(prefix='riti-verif-', dir=SCRATCH_BASE)
    for name in ('src', 'data', 'include', 'Cargo.toml', 'Cargo.lock'):
        s = os.path.join(REPO, name)
        if os.path.isdir(s):
            shutil.copytree(s, os.path.join(d, name))
        elif os.path.exists(s):
            shutil.copy(s, os.path.join(d, name))
    inj = os.path.join(ROOT, 'inject')
    for f in ('verif_driver.rs', 'verif_bounded.rs'):
        shutil.copy(os.path.join(inj, f), os.path.join(d, 'src', f))
    for rel, hook in APPEND.items():
        p = os.path.join(d, rel)
        if os.path.exists(p) and os.path.exists(os.path.join(inj, hook)):
            with open(p, 'a') as f:
                f.write(open(os.path.join(inj, hook)).read())
    with open(os.path.join(d, 'src', 'lib.rs'), 'a') as f:
        f.write('\n#[cfg(openbangla_riti_verif)]\npub mod verif_driver;\n')
    os.makedirs(os.path.join(d, 'examples'), exist_ok=True)
    with open(os.path.join(d, 'examples', 'verif_driver.rs'), 'w') as f:
        f.write('fn main() { riti::verif_driver::main() }\n')
    return d


_built = {}
MODE = {'internal': True, 'internal_error': ''}


def build():
    """returns (scratch_dir, exe). Caller must call cleanup(scratch_dir)."""
    d = make_scratch()
    env = dict(os.environ)
    env['CARGO_TARGET_DIR'] = TARGET
    env['CARGO_NET_OFFLINE'] = 'true'
    # first with the hooks into private items; if those no longer compile against the current tree (a field was added or made
    # private), without them: the API-level checks still run, the checks of internal functions are then undecided
    MODE['internal'] = True
    MODE['internal_error'] = ''
    env['RUSTFLAGS'] = '--cfg openbangla_riti_verif --cfg openbangla_riti_verif_internal -A warnings'
    if os.environ.get('VERIF_FORCE_API'):   # testing aid: behave as if the private hooks did not compile
        p = subprocess.CompletedProcess([], 1, '', 'VERIF_FORCE_API')
    else:
        p = subprocess.run(['cargo', 'build', '--offline', '--release', '--example', 'verif_driver'],
                           cwd=d, env=env, capture_output=True, text=True)
    if p.returncode != 0:
        MODE['internal'] = False
        MODE['internal_error'] = p.stderr[-1500:]
        env['RUSTFLAGS'] = '--cfg openbangla_riti_verif -A warnings'
        p = subprocess.run(['cargo', 'build', '--offline', '--release', '--example', 'verif_driver'],
                           cwd=d, env=env, capture_output=True, text=True)
    if p.returncode != 0:
        shutil.rmtree(d, ignore_errors=True)
        raise DriverError('driver build failed:\n' + p.stderr[-4000:])
    if 'Compiling riti' not in p.stderr:
        # cargo took the crate for unchanged: the executable would not be built from THIS tree
        shutil.rmtree(d, ignore_errors=True)
        raise DriverError('driver build did not recompile the crate (stale artefact guard):\n' + p.stderr[-1500:])
    exe = os.path.join(TARGET, 'release', 'examples', 'verif_driver')
    # private copy of the executable so that concurrent checks do not race on it
    own = os.path.join(d, 'verif_driver.bin')
    shutil.copy(exe, own)
    return d, own


def cleanup(d):
    shutil.rmtree(d, ignore_errors=True)


def run_histories(exe, histories, timeout=600):
    inp = '\n'.join(json.dumps(h, ensure_ascii=False) for h in histories) + '\n'
    env = _env(99)
    p = subprocess.run([exe, 'history'], input=inp, capture_output=True, text=True, timeout=timeout, env=env)
    shutil.rmtree(env['XDG_DATA_HOME'], ignore_errors=True)
    if p.returncode != 0:
        raise DriverError('driver failed: ' + p.stderr[-2000:])
    return [json.loads(l) for l in p.stdout.splitlines() if l.strip()]


_ctr = [0]
_ctr_lock = __import__('threading').Lock()


def _env(i=0):
    with _ctr_lock:
        _ctr[0] += 1
        uniq = _ctr[0]
    env = dict(os.environ)
    env['VERIF_DATA_DIR'] = os.path.join(REPO, 'data')
    env['VERIF_SYNTH_LAYOUT'] = os.path.join(ROOT, 'data', 'synthetic_layout.json')
    env['VERIF_GEN_DIR'] = os.path.join(ROOT, 'build', 'gen')
    env['XDG_DATA_HOME'] = os.path.join(SCRATCH_BASE, 'riti-verif-ud-%d-%d-%d' % (os.getpid(), uniq, i))
    return env


def run_bounded(exe, name, bound, shards=1, timeout=3600):
    import gen_keytable, gen_tables
    gen_keytable.main()
    gen_tables.main()
    envs = [_env(i) for i in range(shards)]
    procs = [subprocess.Popen([exe, 'bounded', name, str(bound), str(i), str(shards)], stdout=subprocess.PIPE,
                              stderr=subprocess.PIPE, text=True, env=envs[i]) for i in range(shards)]
    outs = []
    try:
        for i, pr in enumerate(procs):
            o, e = pr.communicate(timeout=timeout)
            if pr.returncode != 0:
                # a crash of the process itself (stack overflow, abort) is a violation of "returns normally"
                raise DriverCrash('bounded %s: driver process died (exit %s): %s' % (name, pr.returncode, e[-1500:]))
            outs.append(json.loads(o.strip().splitlines()[-1]))
    finally:
        # whatever happened to one shard: no process and no scratch user-data directory is left behind
        for i, pr in enumerate(procs):
            if pr.poll() is None:
                pr.kill()
                try:
                    pr.communicate(timeout=10)
                except Exception:
                    pass
            shutil.rmtree(envs[i]['XDG_DATA_HOME'], ignore_errors=True)
    agg = {'check': name, 'bound': bound, 'cases': 0, 'nontrivial': 0, 'failures': [], 'samples': []}
    for o in outs:
        if 'error' in o:
            raise DriverError('bounded %s: %s' % (name, o['error']))
        agg['cases'] += o.get('cases', 0)
        agg['nontrivial'] += o.get('nontrivial', 0)
        agg['failures'] += o.get('failures', [])
        agg['samples'] += o.get('samples', [])
        agg['domain'] = o.get('domain')
    agg['samples'] = agg['samples'][:5]
    return agg


if __name__ == '__main__':
    import sys
    d, exe = build()
    try:
        if sys.argv[1] == 'bounded':
            print(json.dumps(run_bounded(exe, sys.argv[2], int(sys.argv[3]), int(sys.argv[4]) if len(sys.argv) > 4 else 1), ensure_ascii=False, indent=1))
        else:
            hs = [json.loads(l) for l in open(sys.argv[2]) if l.strip()]
            for r in run_histories(exe, hs):
                print(json.dumps(r, ensure_ascii=False))
    finally:
        cleanup(d)
