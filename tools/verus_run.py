"""Run Verus on an assembled unit, classify the diagnostics, attribute them to properties."""
import json
import os
import re
import subprocess
import sys
import time

sys.path.insert(0, os.path.dirname(os.path.abspath(__file__)))
import assemble as asm
from rsx import ExtractError

ROOT = os.path.dirname(os.path.dirname(os.path.abspath(__file__)))
BUILD = os.path.join(ROOT, 'build')

# Verus verdicts that mean "the solver found the obligation false-able" (semantic failures).
SEMANTIC = [
    'postcondition not satisfied', 'precondition not satisfied', 'assertion failed',
    'invariant not satisfied before loop', 'invariant not satisfied at end of loop body',
    'possible arithmetic underflow/overflow', 'possible division by zero',
    'decreases not satisfied', 'loop ensures not satisfied', 'loop invariant not satisfied',
    'could not prove termination', 'unreachable', 'possible bit shift underflow/overflow',
    'requirement not satisfied', 'assert_by_compute', 'unable to prove post-condition of closure',
]
SAFETY_KINDS = ('precondition not satisfied', 'possible arithmetic', 'possible division',
                'decreases not satisfied', 'could not prove termination', 'possible bit shift')
RLIMIT = ('Resource limit (rlimit) exceeded', 'resource limit', 'canceled')

TAG = re.compile(r'\[(C\d{2,3})\]')

TRUST_PATTERNS = [
    ('assume_specification', re.compile(r'assume_specification\s*(?:<[^\[]*>)?\s*\[\s*([^\]]+?)\s*\]')),
    ('external_body fn', re.compile(r'#\[verifier::external_body\]\s*(?:pub\s+)?(?:broadcast\s+)?(?:proof\s+)?fn\s+(\w+)')),
    ('external_body type', re.compile(r'#\[verifier::external_body\]\s*(?:pub\s+)?struct\s+(\w+)')),
    ('uninterp spec fn', re.compile(r'uninterp\s+spec\s+fn\s+(\w+)')),
    ('assume', re.compile(r'\b(assume)\s*\(')),
    ('admit', re.compile(r'\b(admit)\s*\(')),
]


def scan_trusted(text):
    out = []
    for label, rx in TRUST_PATTERNS:
        for m in rx.finditer(text):
            out.append('%s: %s' % (label, re.sub(r'\s+', ' ', m.group(1))))
    seen = []
    for x in out:
        if x not in seen:
            seen.append(x)
    return seen


def _verus_cmd(path, rlimit, extra):
    cmd = ['verus', os.path.basename(path), '--output-json', '--time', '--multiple-errors', '50',
           '--error-format=json', '--rlimit', str(rlimit), '--no-report-long-running']
    return cmd + list(extra)


def _parse_diags(stderr):
    diags = []
    for ln in stderr.splitlines():
        ln = ln.strip()
        if not ln.startswith('{'):
            continue
        try:
            d = json.loads(ln)
        except Exception:
            continue
        if d.get('$message_type') != 'diagnostic':
            continue
        diags.append(d)
    return diags


def classify(d):
    """-> ('semantic'|'rlimit'|'compile'|'ignore', kind)"""
    msg = d.get('message', '')
    lvl = d.get('level')
    if lvl not in ('error',):
        return 'ignore', msg
    if msg.startswith('aborting due to'):
        return 'ignore', msg
    for r in RLIMIT:
        if r.lower() in msg.lower():
            return 'rlimit', msg
    for s in SEMANTIC:
        if s in msg:
            return 'semantic', s
    return 'compile', msg


def run_unit(unit, rlimit=30, canary=False, extra=(), keep=True):
    """Assemble spec/units/<unit>.vrs from the current /repo and verify it.
    returns a dict (see keys below)."""
    t0 = time.time()
    tmpl = os.path.join(ROOT, 'spec', 'units', unit + '.vrs')
    out = os.path.join(BUILD, unit + ('__canary' if canary else '') + '.rs')
    res = {'unit': unit, 'status': 'ok', 'failures': [], 'undecided': [], 'functions': [], 'items': [],
           'verified': 0, 'errors': 0, 'wall_s': 0.0, 'trusted': [], 'cmd': '', 'smt_ms': 0, 'canary': canary}
    try:
        import gen_keytable
        try:
            gen_keytable.main()
        except Exception as ex:
            raise ExtractError('key table generation from include/riti.h failed: %r' % (ex,))
        meta = asm.assemble(tmpl, out, canary=canary)
    except ExtractError as ex:
        res['status'] = 'undecided'
        res['undecided'].append('extraction: ' + str(ex))
        res['wall_s'] = time.time() - t0
        return res
    text = open(out, encoding='utf-8').read()
    lines = text.split('\n')
    res['items'] = [{k: it.get(k) for k in ('item', 'file', 'first_line', 'sha256', 'props', 'rewrites', 'out_lines', 'name', 'lost_hints')}
                    for it in meta['items']]
    res['trusted'] = scan_trusted(text)
    res['canary_lines'] = meta.get('canary_lines', [])
    ladder = [(rlimit, list(extra)), (rlimit * 3, list(extra) + ['-V', 'spinoff-all'])]
    final = None
    for step, (rl, ex) in enumerate(ladder):
        cmd = _verus_cmd(out, rl, ex)
        res['cmd'] = ' '.join(cmd)
        p = subprocess.run(cmd, cwd=BUILD, capture_output=True, text=True)
        try:
            js = json.loads(p.stdout)
        except Exception:
            js = None
        diags = _parse_diags(p.stderr)
        cls = [(classify(d), d) for d in diags]
        has_rlimit = any(c[0] == 'rlimit' for c, _ in cls)
        final = (p, js, cls)
        if not has_rlimit:
            break
    # a semantic failure is confirmed under two other solver seeds before it is believed: an obligation that verifies under any
    # seed is proved (the solver is trusted), so only failures that persist count (guards against solver instability)
    def _nsem(c):
        return sum(1 for k, _ in c if k[0] == 'semantic')
    if final[1] is not None and _nsem(final[2]) > 0 and not canary:
        rl, ex = ladder[min(step, len(ladder) - 1)]
        res['reruns'] = []
        for seed in (7, 42):
            cmd2 = _verus_cmd(out, rl, ex + ['--smt-option', 'smt.random_seed=%d' % seed, '--smt-option', 'sat.random_seed=%d' % seed])
            p2 = subprocess.run(cmd2, cwd=BUILD, capture_output=True, text=True)
            try:
                js2 = json.loads(p2.stdout)
            except Exception:
                continue
            cls2 = [(classify(d), d) for d in _parse_diags(p2.stderr)]
            if any(c[0] == 'rlimit' or c[0] == 'compile' for c, _ in cls2):
                continue
            res['reruns'].append({'seed': seed, 'semantic_failures': _nsem(cls2)})
            if _nsem(cls2) < _nsem(final[2]):
                final = (p2, js2, cls2)
                res['cmd'] = ' '.join(cmd2)
            if _nsem(final[2]) == 0:
                break
    p, js, cls = final
    if js is None:
        res['status'] = 'undecided'
        res['undecided'].append('verus produced no JSON (exit %d): %s' % (p.returncode, p.stderr[-2000:]))
        res['wall_s'] = time.time() - t0
        return res
    vr = js.get('verification-results', {})
    res['verified'] = vr.get('verified', 0)
    res['errors'] = vr.get('errors', 0)
    try:
        tm = js['times-ms']
        res['smt_ms'] = tm.get('smt', {}).get('smt-run', 0)
        for m in tm['smt']['smt-run-module-times']:
            for f in m['function-breakdown']:
                res['functions'].append({'function': f['function'], 'mode': f.get('mode:', f.get('mode')),
                                         'time_us': f['time-micros'], 'rlimit': f['rlimit'], 'success': f['success']})
    except Exception:
        pass
    linemap = meta['linemap']
    items = meta['items']

    def item_of_line(n):
        if 1 <= n <= len(linemap):
            return linemap[n - 1].get('item')
        return None

    def enclosing_tmpl_fn(n):
        # nearest preceding template line that starts a fn; used for lemmas
        for k in range(n - 1, max(0, n - 400), -1):
            m = re.match(r'\s*(?:pub\s+)?(?:broadcast\s+)?(?:proof\s+|spec\s+|exec\s+)?fn\s+(\w+)', lines[k - 1] if k >= 1 else '')
            if m:
                return m.group(1), k
        return None, None

    for (kind, what), d in cls:
        if kind == 'ignore':
            continue
        spans = [s for s in d.get('spans', []) if s.get('file_name', '').endswith(os.path.basename(out))]
        prim = [s for s in spans if s.get('is_primary')] or spans
        rendered = d.get('rendered', '')
        if kind == 'compile':
            res['undecided'].append('verus rejected the generated file: ' + rendered[:1500])
            continue
        if kind == 'rlimit':
            res['undecided'].append('resource limit even after retry ladder: ' + rendered[:800])
            continue
        tags = set()
        tagged_lines = []
        for s in spans:
            # only the clause itself carries the attribution: the primary span, or the span labelled
            # "failed precondition / failed this postcondition / failed this invariant"
            if not (s.get('is_primary') or str(s.get('label') or '').startswith('failed')):
                continue
            if s['line_end'] - s['line_start'] > 12:
                continue
            for n in range(s['line_start'], s['line_end'] + 1):
                if 1 <= n <= len(lines):
                    for t in TAG.findall(lines[n - 1]):
                        tags.add(t)
                        tagged_lines.append(n)
        pl = prim[0]['line_start'] if prim else None
        it = item_of_line(pl) if pl else None
        # an error inside an item: use body span to locate if primary is in a template part
        if it is None:
            for s in spans:
                it = item_of_line(s['line_start'])
                if it is not None:
                    break
        fn_name = None
        src_ref = None
        if it is not None:
            fn_name = items[it]['item']
            # a source line for the exit point
            for s in spans:
                lm = linemap[s['line_start'] - 1] if 1 <= s['line_start'] <= len(linemap) else {}
                if lm.get('k') == 'src':
                    src_ref = '%s:%d' % (lm['file'], lm['line'])
                    break
        else:
            nm, _ = enclosing_tmpl_fn(pl) if pl else (None, None)
            fn_name = 'spec::' + (nm or '?')
        safety = any(what.startswith(k) for k in SAFETY_KINDS)
        props = set(tags)
        if not props:
            if safety:
                # an unguarded unwrap / index / slice / overflow / non-termination: "returns normally" (C01),
                # plus whatever the unit declares for its safety obligations (e.g. C10 in the adversarial-environment unit)
                props = set(['C01']) | set(meta.get('safety_props') or [])
            elif it is not None:
                props = set(items[it].get('props') or [])
        if not props and it is not None:
            # an item without properties of its own (a trait method declaration carries the contract its implementations
            # are checked against): the properties of the items that define the same function
            last = items[it]['item'].split('::')[-1].strip()
            for other in items:
                if other is not items[it] and other['item'].split('::')[-1].strip() == last:
                    props |= set(other.get('props') or [])
        if not props:
            # never drop a semantic failure: it counts for every property that relies on this unit
            props = set(['*'])
        clause = lines[pl - 1].strip()[:300] if pl else ''
        res['failures'].append({
            'unit': unit, 'kind': what, 'function': fn_name, 'item_index': it, 'props': sorted(props), 'safety': safety, 'tagged': bool(tags),
            'clause': clause, 'gen_line': pl, 'exit_point': src_ref, 'rendered': rendered[:3000],
        })
    # localisation: inside one function, a failed *tagged* intermediate assertion names the step that
    # broke; postconditions of the same function that fail as a consequence are attributed to those
    # properties only (when that narrows their own tag set to something non-empty)
    by_item = {}
    for f in res['failures']:
        by_item.setdefault(f['item_index'], []).append(f)
    for it_idx, fs in by_item.items():
        if it_idx is None:
            continue
        hint_tags = set()
        for f in fs:
            if f['kind'] == 'assertion failed' and f.get('tagged'):
                hint_tags |= set(f['props'])
        if hint_tags:
            for f in fs:
                if f['kind'] == 'postcondition not satisfied':
                    nar = set(f['props']) & hint_tags
                    if nar:
                        f['props'] = sorted(nar)
        if items[it_idx].get('lost_hints'):
            for f in fs:
                f['weak'] = True
                f['weak_reason'] = 'proof hint anchor lost: ' + '; '.join(items[it_idx]['lost_hints'])[:300]
    if res['undecided']:
        res['status'] = 'undecided'
    elif res['failures']:
        res['status'] = 'fail'
    if p.returncode != 0 and res['status'] == 'ok':
        res['status'] = 'undecided'
        res['undecided'].append('verus exit %d without classified diagnostics: %s' % (p.returncode, p.stderr[-1500:]))
    res['wall_s'] = time.time() - t0
    return res


def run_canary(unit, rlimit=10):
    """Vacuity guard: the same unit with `assert(false)` planted behind every precondition and
    loop invariant; every planted assertion must FAIL.  Returns (ok, vacuous_lines, detail)."""
    r = run_unit(unit, rlimit=rlimit, canary=True)
    if r['status'] == 'undecided' and not r['failures']:
        return None, [], r
    failed_lines = set(f['gen_line'] for f in r['failures'] if f['kind'] == 'assertion failed')
    planted = r.get('canary_lines', [])
    vac = [c for c in planted if c['line'] not in failed_lines]
    return (len(vac) == 0), vac, r


if __name__ == '__main__':
    r = run_unit(sys.argv[1])
    print(json.dumps({k: r[k] for k in ('unit', 'status', 'verified', 'errors', 'wall_s', 'undecided')}, indent=1))
    for f in r['failures']:
        print(f['kind'], '|', f['function'], '|', f['props'], '|', f['clause'], '|', f['exit_point'])
