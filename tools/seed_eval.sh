#!/bin/bash
# usage: seed_eval.sh <seed id> <prop> [more props...]   -- applies seeded/<id>/patch.diff to /repo, runs checks, reverts
id=$1; shift
cd /repo && git status --short | grep -q . && { echo "/repo not clean"; exit 3; }
git -C /repo apply /verif/seeded/$id/patch.diff || { echo "patch does not apply"; exit 3; }
cd /verif
for p in "$@"; do
  out=$(./check $p 2>&1); rc=$?
  echo "[$id] check $p -> exit $rc"; echo "$out" | grep -E "^VIOLATION|^UNDECIDED|obligation:|tier=" | cut -c1-260
done
git -C /repo checkout -- .
git -C /repo status --short | head -3
