#!/usr/bin/env python3
"""Self-check of tools/plan.py: every function whose contract carries a clause tagged [Cxx] (or lists Cxx in its props) must be
verified in at least one unit of Cxx's plan -- otherwise a change that breaks that clause fails an obligation no check of Cxx runs.
Reads the generated units of the last run (build/<unit>.rs + .map.json); prints the gaps, exit 1 if there is one."""
import glob, json, os, re, sys
ROOT = os.path.dirname(os.path.dirname(os.path.abspath(__file__)))
sys.path.insert(0, os.path.join(ROOT, 'tools'))
import plan


def main():
    info = {}
    for f in glob.glob(os.path.join(ROOT, 'build', '*.rs.map.json')):
        u = os.path.basename(f)[:-len('.rs.map.json')]
        if 'canary' in u or u not in plan.UNITS:
            continue
        m = json.load(open(f))
        items = m['items'] if isinstance(m, dict) else m
        gen = open(os.path.join(ROOT, 'build', u + '.rs'), encoding='utf-8').read().split('\n')
        for it in items:
            if not it['item'].split('::')[-1].strip().startswith('fn '):
                continue
            rng = it.get('out_lines') or [0, -1]
            text = '\n'.join(gen[rng[0] - 1:rng[1]])
            tags = set(re.findall(r'\[(C\d\d)\]', text)) | set(it.get('props') or [])
            info.setdefault(it['item'], {})[u] = tags
    bad = 0
    for p in plan.PLAN:
        have = set(plan.PLAN[p].get('units', []))
        for item, d in sorted(info.items()):
            tagged = [u for u, t in d.items() if p in t]
            if tagged and not (set(tagged) & have):
                bad += 1
                print('%s: %s is tagged in %s, none of which is in the plan %s' % (p, item, tagged, sorted(have)))
    print('attribution gaps: %d' % bad)
    return 1 if bad else 0


if __name__ == '__main__':
    sys.exit(main())
