#!/bin/bash
# usage: seed_eval_all.sh <suffix> [ids...] : evaluates every seed /verif/seeded/Cxx-<suffix> (or the ids given) against a scratch
# worktree of /repo, running the check of the copy of /verif this script lives in (so /repo and /verif/evidence stay untouched
# when it is run from a scratch copy: rsync -a --exclude build --exclude .git /verif/ /tmp/vev/ && /tmp/vev/tools/seed_eval_all.sh e)
here=$(cd "$(dirname "$0")/.." && pwd)
suf=$1; shift
ids="$@"
[ -z "$ids" ] && ids=$(ls -d /verif/seeded/C??-$suf | xargs -n1 basename)
cd $here
for id in $ids; do
  d=/verif/seeded/$id; p=${id%%-*}
  wt=/tmp/seedeval-wt-$$
  git -C /repo worktree remove --force $wt >/dev/null 2>&1
  git -C /repo worktree add -q --detach $wt HEAD || exit 3
  git -C $wt apply $d/patch.diff || { echo "[$id] patch does not apply"; git -C /repo worktree remove --force $wt; continue; }
  out=$(VERIF_REPO=$wt ./check $p 2>&1); rc=$?
  echo "[$id] check $p -> exit $rc"; echo "$out" | grep -E "^VIOLATION|^UNDECIDED|obligation:|tier=" | cut -c1-300
  git -C /repo worktree remove --force $wt
done
git -C /repo worktree prune
