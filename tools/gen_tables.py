#!/usr/bin/env python3
"""Extract the emoticon / emoji-name tables from the emojicon crate sources in the cargo registry
(the crate does not expose them): build/gen/emoji_tables.json = {"emoticons": [...], "names": [...], "bengali": [...]}"""
import glob
import json
import os
import re

ROOT = os.path.dirname(os.path.dirname(os.path.abspath(__file__)))


def unesc(s):
    return s.replace('\\"', '"').replace('\\\\', '\\').replace("\\'", "'")


def main():
    out = os.path.join(ROOT, 'build', 'gen', 'emoji_tables.json')
    ds = sorted(glob.glob(os.path.expanduser('~/.cargo/registry/src/*/emojicon-0.4*')))
    if not ds:
        raise RuntimeError('emojicon sources not found')
    d = ds[-1]
    emot = [unesc(m.group(1)) for m in re.finditer(r'\(\s*"((?:[^"\\]|\\.)*)"\s*,\s*"', open(os.path.join(d, 'src', 'emoticons.rs'), encoding='utf-8').read())]
    names = [unesc(m.group(1)) for m in re.finditer(r'\(\s*"((?:[^"\\]|\\.)*)"\s*,\s*&\[', open(os.path.join(d, 'src', 'emoji.rs'), encoding='utf-8').read())]
    bn = [unesc(m.group(1)) for m in re.finditer(r'\(\s*"((?:[^"\\]|\\.)*)"\s*,\s*&\[', open(os.path.join(d, 'src', 'bn_emojis.rs'), encoding='utf-8').read())]
    # the tables themselves (what the statement of C18 calls "all emoji listed for it"), read from the sources independently of
    # the engine's own look-up functions; a key that occurs twice keeps its last value, as HashMap::from / collect do
    def lists(fn):
        m = {}
        for mm in re.finditer(r'\(\s*"((?:[^"\\]|\\.)*)"\s*,\s*&\[((?:\s*"(?:[^"\\]|\\.)*"\s*,?)*)\s*\]\s*\)', open(os.path.join(d, 'src', fn), encoding='utf-8').read()):
            m[unesc(mm.group(1))] = [unesc(x) for x in re.findall(r'"((?:[^"\\]|\\.)*)"', mm.group(2))]
        return m
    emot_map = {}
    for mm in re.finditer(r'\(\s*"((?:[^"\\]|\\.)*)"\s*,\s*"((?:[^"\\]|\\.)*)"\s*\)', open(os.path.join(d, 'src', 'emoticons.rs'), encoding='utf-8').read()):
        emot_map[unesc(mm.group(1))] = unesc(mm.group(2))
    names_map = lists('emoji.rs')
    bn_map = lists('bn_emojis.rs')
    os.makedirs(os.path.dirname(out), exist_ok=True)
    tmp = out + '.%d.%d.tmp' % (os.getpid(), __import__('threading').get_ident())
    json.dump({'emoticons': emot, 'names': names, 'bengali': bn, 'emoticon_map': emot_map, 'names_map': names_map, 'bengali_map': bn_map}, open(tmp, 'w'), ensure_ascii=False)
    os.replace(tmp, out)
    return len(emot), len(names), len(bn)


if __name__ == '__main__':
    print(main())
