#!/usr/bin/env python3
"""Confirm a seeded change produced by a sub-agent, in a scratch worktree of /repo (never in /repo):
   (1) patch applies and the existing suite passes with it; (2) demo fails with the patch;
   (3) demo passes without it.  Then store it as /verif/seeded/<id>/.
usage: seed_confirm.py <id> <dir with patch.diff demo.diff notes.md> <property>"""
import json
import os
import re
import shutil
import subprocess
import sys

ROOT = os.path.dirname(os.path.dirname(os.path.abspath(__file__)))


def sh(cmd, cwd, timeout=1800):
    p = subprocess.run(cmd, cwd=cwd, shell=True, capture_output=True, text=True, timeout=timeout)
    return p.returncode, p.stdout + p.stderr


def test_counts(out):
    m = re.findall(r'test result: (\w+)\. (\d+) passed; (\d+) failed', out)
    if not m:
        return None
    return sum(int(x[1]) for x in m), sum(int(x[2]) for x in m)


def main():
    sid, src, prop = sys.argv[1], sys.argv[2], sys.argv[3]
    wt = '/tmp/seedcheck-' + sid
    subprocess.run(['git', '-C', '/repo', 'worktree', 'remove', '--force', wt], capture_output=True)
    subprocess.check_call(['git', '-C', '/repo', 'worktree', 'add', '-q', '--detach', wt, 'HEAD'])
    res = {}
    env_target = 'CARGO_TARGET_DIR=/tmp/seedcheck-target'
    try:
        rc, out = sh('git apply --check %s/patch.diff && git apply %s/patch.diff' % (src, src), wt)
        res['patch_applies'] = rc == 0
        rc, out = sh(env_target + ' cargo test --offline 2>&1', wt)
        res['suite_with_patch'] = test_counts(out)
        rc, out2 = sh('git apply %s/demo.diff' % src, wt)
        res['demo_applies'] = rc == 0
        rc, out = sh(env_target + ' cargo test --offline 2>&1', wt)
        res['patch_plus_demo'] = test_counts(out)
        fail_lines = [l for l in out.splitlines() if 'FAILED' in l or 'panicked' in l][:6]
        res['demo_failure'] = fail_lines
        sh('git apply -R %s/patch.diff' % src, wt)
        rc, out = sh(env_target + ' cargo test --offline 2>&1', wt)
        res['demo_only'] = test_counts(out)
    finally:
        subprocess.run(['git', '-C', '/repo', 'worktree', 'remove', '--force', wt], capture_output=True)
    ok = (res.get('patch_applies') and res.get('suite_with_patch') == (43, 0) and res.get('patch_plus_demo') and res['patch_plus_demo'][1] > 0
          and res.get('demo_only') and res['demo_only'][1] == 0 and res['demo_only'][0] > 43)
    res['confirmed'] = bool(ok)
    print(json.dumps(res, indent=1, ensure_ascii=False))
    if ok:
        dst = os.path.join(ROOT, 'seeded', sid)
        os.makedirs(dst, exist_ok=True)
        for f in ('patch.diff', 'demo.diff', 'notes.md'):
            shutil.copy(os.path.join(src, f), os.path.join(dst, f))
        meta = {'id': sid, 'property': prop, 'source': 'independent sub-agent given only the property text and a scratch worktree',
                'confirmation': res,
                'what_i_ran': 'tools/seed_confirm.py: scratch worktree of /repo HEAD; git apply patch.diff; cargo test --offline (43 pass); git apply demo.diff; cargo test (demo fails); git apply -R patch.diff; cargo test (all pass)'}
        notes = open(os.path.join(src, 'notes.md')).read()
        meta['needs_to_manifest'] = notes[:1500]
        json.dump(meta, open(os.path.join(dst, 'meta.json'), 'w'), indent=1, ensure_ascii=False)
    return 0 if ok else 1


if __name__ == '__main__':
    sys.exit(main())
