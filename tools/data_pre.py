"""Data-precondition validator (DESIGN.md 4.4).

The contracts put well-formedness of the bundled tables into *assumed* clauses (spec/common/data.vrs,
rank_order.vrs, fixed_list.vrs).  Those are facts about files of /repo/data, not about code, so they are checked against the
files of the current tree on every run.  A violated precondition is not a proof failure; the entry that violates it is
turned into a key history and executed on the real code:
  * the history panics / breaks the clause  -> violation with that concrete input (replayable);
  * it does not                             -> undecided: the proof rests on an assumption the data do not satisfy.
"""
import json
import os
import string
import sys
import time

sys.path.insert(0, os.path.dirname(os.path.abspath(__file__)))
import driver as DR

ROOT = os.path.dirname(os.path.dirname(os.path.abspath(__file__)))
TYPEABLE = set(string.ascii_letters + string.digits + "`~!@#$%^&*()-_=+[{]}\\|;:'\",<.>/?")


def _load(name):
    p = os.path.join(DR.REPO, 'data', name)
    with open(p, encoding='utf-8-sig') as f:
        return json.load(f)


def _phonetic_history(text, what):
    return {'id': 'data-pre', 'property': 'C01', 'what': what,
            'config': {'layout': 'avro_phonetic', 'database_dir': os.path.join(DR.REPO, 'data'), 'phonetic_suggestion': True},
            'events': [{'type': text}]}


def check_tables():
    """returns (facts, offenders); offenders: list of dicts {pre, entry, history|None}"""
    facts = {}
    off = []
    ac = _load('autocorrect.json')
    facts['autocorrect_entries'] = len(ac)
    n_reach = 0
    for k, v in ac.items():
        if not isinstance(v, str):
            off.append({'pre': 'autocorrect.json: every value is a string', 'entry': [k, repr(v)], 'history': None})
            continue
        if k.isascii():
            n_reach += 1
            # data.vrs: term.is_ascii() && r.is_some() ==> r.unwrap().is_ascii()   (okkhor's parser byte-slices its input)
            if not v.isascii():
                h = _phonetic_history(k, 'bundled auto-correct value of the typeable key %r is not ASCII' % k) if all(c in TYPEABLE for c in k) else None
                off.append({'pre': 'autocorrect.json: the replacement of every ASCII key is ASCII (assumed contract of Data::search_corrected)',
                            'entry': [k, v], 'history': h})
    facts['autocorrect_ascii_keys'] = n_reach
    sx = _load('suffix.json')
    facts['suffix_entries'] = len(sx)
    for k, v in sx.items():
        if not isinstance(v, str):
            off.append({'pre': 'suffix.json: every value is a string', 'entry': [k, repr(v)], 'history': None})
    dic = _load('dictionary.json')
    longest = 0
    nwords = 0
    for t, ws in dic.items():
        for w in ws:
            nwords += 1
            if len(w) > longest:
                longest = len(w)
            # rank_order.vrs dt_rank_ok / fixed_list.vrs fx_rank_ok: 10 * edit distance fits the u8 rank number
            # (distance <= max(len) ; typed words are far shorter than 25 keys in every bounded check)
            if len(w) > 25:
                off.append({'pre': 'dictionary.json: no word is longer than 25 code points (10 x edit distance must fit the u8 rank number)',
                            'entry': [t, w], 'history': None})
    facts['dictionary_words'] = nwords
    # emoji tables (dependency data, read from the emojicon sources by gen_tables.py): fewer than 256 emoji per name -- the rank
    # number of the k-th emoji is the u8 k (zip(1..)); data.vrs / fixed_list.vrs / rank_order.vrs assume remaining().len() <= 255
    try:
        import gen_tables
        gen_tables.main()
        et = json.load(open(os.path.join(ROOT, 'build', 'gen', 'emoji_tables.json'), encoding='utf-8'))
        for tab in ('names_map', 'bengali_map'):
            m = max((len(v) for v in et.get(tab, {}).values()), default=0)
            facts['emoji_%s_entries' % tab] = len(et.get(tab, {}))
            facts['emoji_%s_longest_entry' % tab] = m
            for k, v in et.get(tab, {}).items():
                if len(v) > 255:
                    off.append({'pre': 'emojicon %s: at most 255 emoji per name (u8 rank number)' % tab, 'entry': [k, len(v)], 'history': None})
    except Exception as ex:
        facts['emoji_tables'] = 'not readable: %r' % (ex,)
    facts['dictionary_longest_word_code_points'] = longest
    return facts, off


def run(name='tables'):
    t0 = time.time()
    res = {'status': 'ok', 'violations': [], 'obligations': [], 'samples': [], 'trusted': [], 'name': name}
    try:
        facts, off = check_tables()
    except Exception as ex:
        res['status'] = 'undecided'
        res['reason'] = 'data files of the current tree cannot be read: %r' % (ex,)
        return res
    res['samples'].append({'data_preconditions': facts})
    undec = []
    if off:
        import extra_checks as EC
        exe, err = EC._driver()
        for o in off[:20]:
            h = o['history']
            if h is None or exe is None:
                undec.append('%s -- offending entry %s (no key history reaches it%s)' % (o['pre'], json.dumps(o['entry'], ensure_ascii=False),
                                                                                      '' if exe else '; driver does not build'))
                continue
            hh = dict(h)
            hh['user_dir'] = '/tmp/riti-verif-datapre-%d' % os.getpid()
            try:
                r = DR.run_histories(exe, [hh])[0]
            except Exception as ex:
                undec.append('%s -- offending entry %s (replay failed: %r)' % (o['pre'], json.dumps(o['entry'], ensure_ascii=False), ex))
                continue
            finally:
                import shutil
                shutil.rmtree(hh['user_dir'], ignore_errors=True)
            if r.get('panic') is not None:
                res['violations'].append({'props': ['C01'], 'unit': 'data:' + name, 'function': 'data precondition + replay',
                                          'kind': 'panic on a key history reaching a table entry that breaks an assumed data precondition',
                                          'clause': 'C01 ' + o['pre'], 'rendered': json.dumps({'entry': o['entry'], 'observed': r}, ensure_ascii=False)[:3000],
                                          'input': h, 'exit_point': None, 'replay': {'driver': 'history', 'expected': 'returns normally', 'observed': r.get('panic')}})
            else:
                undec.append('%s -- offending entry %s (its key history returns normally, but the proofs assume the precondition)' % (
                    o['pre'], json.dumps(o['entry'], ensure_ascii=False)))
    res['obligations'].append({'id': 'data/%s (assumed data preconditions hold on /repo/data of the current tree)' % name,
                               'discharged': not off, 'backend': 'python validator (checked input precondition, not a proof)',
                               'time_us': int((time.time() - t0) * 1e6)})
    if res['violations']:
        res['status'] = 'fail'
    elif undec:
        res['status'] = 'undecided'
        res['reason'] = '; '.join(undec)[:1500]
    return res


if __name__ == '__main__':
    print(json.dumps(run(), ensure_ascii=False, indent=1))
