"""Run miri/verif_ffi_miri.rs under Miri on a scratch copy of /repo's current tree (bounded stand-in, C19)."""
import os
import re
import shutil
import subprocess
import sys
import tempfile
import time

ROOT = os.path.dirname(os.path.dirname(os.path.abspath(__file__)))
REPO = os.environ.get('VERIF_REPO', '/repo')
TARGET = os.path.join(ROOT, 'build', 'miri-target')


def run(timeout=2400, tier='quick', native=False):
    """native=True: the same life cycles as an ordinary test binary (system allocator: freed addresses are reused at once, which
    Miri's allocator does only now and then) -- catches stale per-address state; no memory-safety checking in that mode"""
    t0 = time.time()
    # Miri's cached test binary remembers the directory it was built in: use one fixed scratch path
    base = '/var/tmp' if os.access('/var/tmp', os.W_OK) else '/tmp'
    d = os.path.join(base, 'riti-verif-miri-scratch') if not native else tempfile.mkdtemp(prefix='riti-verif-ffi-native-', dir=base)
    shutil.rmtree(d, ignore_errors=True)
    os.makedirs(d)
    try:
        for name in ('src', 'data', 'include', 'Cargo.toml', 'Cargo.lock'):
            s = os.path.join(REPO, name)
            if os.path.isdir(s):
                shutil.copytree(s, os.path.join(d, name))
            elif os.path.exists(s):
                shutil.copy(s, os.path.join(d, name))
        os.makedirs(os.path.join(d, 'tests'), exist_ok=True)
        # copytree keeps modification times: make cargo see the crate as changed, so that it is rebuilt from THIS tree on every run
        for root_, _dirs, files in os.walk(os.path.join(d, 'src')):
            for fn in files:
                os.utime(os.path.join(root_, fn), None)
        shutil.copy(os.path.join(ROOT, 'miri', 'verif_ffi_miri.rs'), os.path.join(d, 'tests', 'verif_ffi_miri.rs'))
        # the crate's own artefacts are rebuilt every run (dependencies stay cached)
        import glob
        for pat in () if native else ('miri/*/debug/deps/*riti*', 'miri/*/debug/deps/verif_ffi_miri*', 'miri/*/debug/.fingerprint/riti-*', 'miri/*/debug/incremental/*'):
            for f in glob.glob(os.path.join(TARGET, pat)):
                shutil.rmtree(f, ignore_errors=True) if os.path.isdir(f) else os.remove(f)
        env = dict(os.environ)
        env['CARGO_NET_OFFLINE'] = 'true'
        env['CARGO_TARGET_DIR'] = TARGET if not native else os.path.join(ROOT, 'build', 'native-target')
        env['MIRIFLAGS'] = '-Zmiri-disable-isolation'
        env['VERIF_TIER'] = tier
        env['VERIF_SYNTH_LAYOUT'] = os.path.join(ROOT, 'data', 'synthetic_layout.json')
        env['VERIF_MINI_DB'] = os.path.join(ROOT, 'data', 'mini_db')
        if native:
            env['VERIF_DATA_DIR'] = os.path.join(d, 'data')   # the bundled tables of the tree under check (heap-growth test)
        cmd = ['cargo', '+nightly', 'miri', 'test', '--offline', '--test', 'verif_ffi_miri']
        if native:
            cmd = ['cargo', 'test', '--offline', '--test', 'verif_ffi_miri', '--', '--test-threads=1']
        try:
            p = subprocess.run(cmd, cwd=d, env=env, capture_output=True, text=True, timeout=timeout)
        except subprocess.TimeoutExpired:
            return {'status': 'undecided', 'detail': 'miri timeout', 'cmd': ' '.join(cmd), 'wall_s': time.time() - t0}
        text = p.stdout + '\n' + p.stderr
        m = re.search(r'test result: (\w+)\. (\d+) passed; (\d+) failed', text)
        if p.returncode == 0 and m and m.group(1) == 'ok' and int(m.group(2)) >= 4:
            st = 'ok'
        elif 'Undefined Behavior' in text or 'memory leaked' in text or 'panicked' in text or (m and int(m.group(3)) > 0):
            st = 'fail'
        else:
            st = 'undecided'
        ub = re.findall(r'(?m)^error: (.*)$', text)
        return {'status': st, 'detail': '; '.join(ub[:4]) or text[-1500:], 'raw': text[-4000:], 'cmd': ' '.join(cmd), 'wall_s': time.time() - t0,
                'tests': int(m.group(2)) if m else 0}
    finally:
        shutil.rmtree(d, ignore_errors=True)


if __name__ == '__main__':
    r = run()
    print(r['status'], '%.0fs' % r['wall_s'], r['detail'][:2000])
