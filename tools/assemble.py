"""Assemble one Verus input file per unit from /repo's *current* sources.

A unit template (spec/units/<unit>.vrs) is Verus text (prelude, spec functions,
lemmas, T3 stubs) with `//@@ item ... //@@ end` blocks.  Every block is replaced
by the item cut out of the repository, byte for byte, plus *inserted* contract
text.  The only edits of the cut-out text are the mechanical rewrites D1..D9
documented in DESIGN.md section 2; each is recorded.  The assembler checks that
deleting the insertions and undoing the rewrites reproduces the source bytes.

Directives inside a block (each introduces the text lines that follow it, up to
the next directive):

  //@@ item <file> :: <comp> [:: <comp>]      comp = "fn x" | "impl T for X" | "struct X" | ...
  //@@ props C01 C12          default property attribution of this item
  //@@ ret <name>             D9  `-> T` becomes `-> (name: T)`
  //@@ vis                    D2  `pub(crate)`/private -> `pub` on the item and its fields
  //@@ sig                    text inserted between signature and body
  //@@ entry                  text inserted right after the body's `{`
  //@@ before <n> <regex>     text inserted before the line holding the n-th match
  //@@ after <n> <regex>      text inserted after the line holding the n-th match
  //@@ loop <n> [bind=<id>]   text inserted between n-th loop header and its `{`
  //@@ forloop <n> [enum=<var>]   D3/D4 desugaring of the n-th loop (a `for`)
  //@@ sub <Did> <count|*> <regex> => <replacement>     D1/D5/D6/D8 rewrite
  //@@ region <Did> <sha12> <first-line-regex> ==> <last-line-regex>   replaced by following text
  //@@ strip                  drop attribute lines and doc comments inside the item
  //@@ bodyless               replace the body by `;`-less external stub?  (not used)
  //@@ end
"""
import hashlib
import json
import os
import re
import sys

sys.path.insert(0, os.path.dirname(os.path.abspath(__file__)))
import rsx
from rsx import ExtractError

REPO = os.environ.get('VERIF_REPO', '/repo')


class Seg:
    """A piece of output text with provenance."""
    __slots__ = ('text', 'kind', 'meta')

    def __init__(self, text, kind, meta=None):
        self.text = text
        self.kind = kind  # 'tmpl' | 'src' | 'ins' | 'rw'
        self.meta = meta or {}


def sha(s):
    return hashlib.sha256(s.encode()).hexdigest()


def _read_lines(path, depth=0, defs=None):
    """flatten includes; evaluate //@@ define X, //@@ ifdef X / //@@ ifndef X ... //@@ endif"""
    if depth > 8:
        raise ExtractError('include depth')
    if defs is None:
        defs = set()
    out = []
    stack = []  # booleans: emitting?
    for ln in open(path, encoding='utf-8').read().split('\n'):
        st = ln.strip()
        if st.startswith('//@@ ifdef ') or st.startswith('//@@ ifndef '):
            name = st.split()[2]
            cond = (name in defs) == st.startswith('//@@ ifdef ')
            stack.append(cond)
            continue
        if st.startswith('//@@ endif'):
            if not stack:
                raise ExtractError('%s: endif without ifdef' % path)
            stack.pop()
            continue
        if not all(stack):
            continue
        if st.startswith('//@@ define '):
            defs.add(st.split()[2])
            continue
        if st.startswith('//@@ include '):
            inc = os.path.join(os.path.dirname(path), st[len('//@@ include '):].strip())
            out.extend(_read_lines(inc, depth + 1, defs))
        else:
            out.append(ln)
    if stack:
        raise ExtractError('%s: unterminated ifdef' % path)
    return out


def parse_template(path):
    lines = _read_lines(path)
    out = []  # ('text', lineno, str) | ('item', lineno, itemdict)
    i = 0
    while i < len(lines):
        ln = lines[i]
        st = ln.strip()
        if st.startswith('//@@ item '):
            item = {'line': i + 1, 'spec': st[len('//@@ item '):].strip(), 'dirs': []}
            i += 1
            cur = None
            while True:
                if i >= len(lines):
                    raise ExtractError('%s:%d: unterminated item block' % (path, item['line']))
                st = lines[i].strip()
                if st.startswith('//@@ end'):
                    i += 1
                    break
                if st.startswith('//@@ '):
                    cur = {'d': st[5:].strip(), 'line': i + 1, 'text': []}
                    item['dirs'].append(cur)
                elif st.startswith('//@@'):
                    raise ExtractError('%s:%d: bad directive' % (path, i + 1))
                else:
                    if cur is None:
                        raise ExtractError('%s:%d: text before directive' % (path, i + 1))
                    cur['text'].append(lines[i])
                i += 1
            out.append(('item', item['line'], item))
        else:
            out.append(('text', i + 1, ln))
            i += 1
    return out


def _line_start(s, p):
    j = s.rfind('\n', 0, p)
    return j + 1


def _line_end(s, p):
    j = s.find('\n', p)
    return len(s) if j < 0 else j + 1


def _nth_line_match(text, n, rx, what):
    """start offset of the n-th *line* of text matching rx (code or not)."""
    r = re.compile(rx)
    cnt = 0
    pos = 0
    for ln in text.split('\n'):
        if r.search(ln):
            cnt += 1
            if cnt == n:
                return pos, pos + len(ln) + 1
        pos += len(ln) + 1
    raise ExtractError('anchor not found (%s): #%d /%s/' % (what, n, rx))


def build_item(item, tmpl_path, canary=False):
    """returns (segments, info)"""
    spec = item['spec']
    file_part, _, path_part = spec.partition('::')
    relfile = file_part.strip()
    comps = [c.strip() for c in path_part.split('::')]
    full = os.path.join(REPO, relfile)
    if not os.path.exists(full):
        raise ExtractError('missing source file ' + relfile)
    src = open(full, encoding='utf-8').read()
    s, e, bo = rsx.locate(src, comps)
    text = src[s:e]
    first_line = src.count('\n', 0, s) + 1
    bo_rel = None if bo is None else bo - s
    edits = []  # (start, end, new_text, kind, meta)
    props = []
    what = relfile + ' :: ' + ' :: '.join(comps)
    loops = None

    def get_loops():
        nonlocal loops
        if loops is None:
            if bo_rel is None:
                raise ExtractError('loop directive on body-less item ' + what)
            loops = rsx.loops(text, bo_rel, len(text))
        return loops

    rewrites = []
    lost_hints = []
    for d in item['dirs']:
        words = d['d'].split()
        kw = words[0]
        ins_text = '\n'.join(d['text'])
        meta = {'tline': d['line'] + 1, 'dir': d['d']}
        if kw == 'props':
            props = words[1:]
        elif kw == 'sig':
            # insert before the body brace (or before the final `;` of a body-less item)
            p = bo_rel if bo_rel is not None else len(text) - 1
            edits.append((p, p, '\n' + ins_text + '\n', 'ins', meta))
        elif kw == 'entry':
            edits.append((bo_rel + 1, bo_rel + 1, '\n' + ins_text + '\n', 'ins', meta))
        elif kw in ('before', 'after', 'before?', 'after?'):
            n = int(words[1])
            rx = d['d'].split(None, 2)[2]
            try:
                ls, le = _nth_line_match(text, n, rx, what)
            except ExtractError:
                if kw.endswith('?'):
                    # an optional proof hint whose anchor statement is gone: verify without it; a failure of
                    # this function is then only a *weak* verdict (see verus_run / check)
                    lost_hints.append(d['d'])
                    continue
                raise
            p = ls if kw.startswith('before') else le
            edits.append((p, p, ins_text + '\n', 'ins', meta))
        elif kw == 'loop':
            n = int(words[1])
            lp = get_loops()
            if n > len(lp):
                raise ExtractError('loop #%d not found in %s' % (n, what))
            ks, kword, lbo = lp[n - 1]
            for w in words[2:]:
                if w.startswith('bind='):
                    if kword != 'for':
                        raise ExtractError('bind on non-for loop in ' + what)
                    m = re.compile(r'\bin\b').search(text, ks, lbo)
                    # first ` in ` at code level after the pattern
                    mm = rsx.find_code(text, re.compile(r'in\b'), ks + 3, lbo)
                    p = mm.end()
                    edits.append((p, p, ' ' + w[5:] + ':', 'rw', {'D': 'D3b', 'old': '', 'dir': d['d']}))
            edits.append((lbo, lbo, '\n' + ins_text + '\n', 'ins', meta))
        elif kw == 'forloop':
            n = int(words[1])
            lp = get_loops()
            if n > len(lp):
                raise ExtractError('loop #%d not found in %s' % (n, what))
            ks, kword, lbo = lp[n - 1]
            if kword != 'for':
                raise ExtractError('forloop on non-for loop in ' + what)
            enum = None
            for w in words[2:]:
                if w.startswith('enum='):
                    enum = w[5:]
            header = text[ks:lbo]
            m = re.match(r'for\s+(.+?)\s+in\s+(.+?)\s*$', header, re.S)
            if not m:
                raise ExtractError('cannot parse for header in ' + what)
            pat, expr = m.group(1), m.group(2)
            itn = '__it%d' % n
            if enum:
                mp = re.match(r'\(\s*(\w+)\s*,\s*(.+?)\s*\)$', pat, re.S)
                if not mp or not expr.endswith('.enumerate()'):
                    raise ExtractError('D4: not an enumerate loop in ' + what)
                idxv, pat2 = mp.group(1), mp.group(2)
                expr2 = expr[:-len('.enumerate()')]
                pre = 'let mut %s = %s; let mut %s: usize = 0;\n loop ' % (itn, expr2, enum)
                post = ' let %s = match %s.next() { Some(__x) => __x, None => break }; let %s = %s; %s = %s + 1;' % (
                    pat2, itn, idxv, enum, enum, enum)
            else:
                pre = 'let mut %s = %s;\n loop ' % (itn, expr)
                post = ' let %s = match %s.next() { Some(__x) => __x, None => break };' % (pat, itn)
            edits.append((ks, lbo, pre, 'rw', {'D': 'D3/D4', 'old': header, 'dir': d['d']}))
            if ins_text.strip():
                edits.append((lbo, lbo, '\n' + ins_text + '\n', 'ins', meta))
            edits.append((lbo + 1, lbo + 1, post, 'rw', {'D': 'D3/D4', 'old': '', 'dir': d['d']}))
        elif kw == 'ret':
            name = words[1]
            if bo_rel is None:
                hdr_end = len(text) - 1
            else:
                hdr_end = bo_rel
            m = None
            for mm in rsx.find_all_code(text, re.compile(r'->\s*'), 0, hdr_end):
                m = mm  # last arrow at code level in the header = the fn return arrow
            if m is None:
                raise ExtractError('ret: no return type in ' + what)
            ty_s = m.end()
            ty_e = hdr_end
            ty = text[ty_s:ty_e]
            # strip a where-clause (none in riti) and trailing whitespace
            ty_strip = ty.rstrip()
            edits.append((ty_s, ty_s + len(ty_strip), '(%s: %s)' % (name, ty_strip), 'rw',
                          {'D': 'D9', 'old': ty_strip, 'dir': d['d']}))
        elif kw == 'vis':
            for mm in rsx.find_all_code(text, re.compile(r'pub\s*\(\s*crate\s*\)')):
                edits.append((mm.start(), mm.end(), 'pub', 'rw', {'D': 'D2', 'old': mm.group(0), 'dir': d['d']}))
            head = comps[-1].split()[0]
            if head in ('struct',) and bo_rel is not None:
                # make fields pub: every field starts a line at depth 1
                for mm in re.finditer(r'(?m)^(\s*)([a-z_][a-z0-9_]*\s*:)', text[bo_rel:]):
                    p = bo_rel + mm.start(2)
                    edits.append((p, p, 'pub ', 'rw', {'D': 'D2', 'old': '', 'dir': d['d']}))
            if head in ('fn', 'struct', 'enum', 'const', 'trait', 'type') and not text.startswith('pub'):
                edits.append((0, 0, 'pub ', 'rw', {'D': 'D2', 'old': '', 'dir': d['d']}))
        elif kw == 'sub':
            m = re.match(r'sub\s+(\S+)\s+(\S+)\s+(.*?)\s+=>\s?(.*)$', d['d'])
            if not m:
                raise ExtractError('bad sub directive: ' + d['d'])
            did, cnt, rx, rep = m.groups()
            found = list(re.finditer(rx, text))
            if cnt != '*' and len(found) != int(cnt):
                raise ExtractError('sub %s: expected %s matches of /%s/ in %s, found %d' % (did, cnt, rx, what, len(found)))
            if cnt == '*' and not found:
                raise ExtractError('sub %s: no match of /%s/ in %s' % (did, rx, what))
            for mm in found:
                edits.append((mm.start(), mm.end(), mm.expand(rep), 'rw', {'D': did, 'old': mm.group(0), 'dir': d['d']}))
        elif kw == 'region':
            m = re.match(r'region\s+(\S+)\s+(\S+)\s+(.*?)\s+==>\s+(.*)$', d['d'])
            if not m:
                raise ExtractError('bad region directive: ' + d['d'])
            did, pin, rx1, rx2 = m.groups()
            ls, _ = _nth_line_match(text, 1, rx1, what)
            rest = text[ls:]
            _, le2 = _nth_line_match(rest, 1, rx2, what)
            old = text[ls:ls + le2]
            h = sha(rsx.normalise(old))[:12]
            if h != pin:
                raise ExtractError('region pin mismatch in %s: have %s want %s' % (what, h, pin))
            edits.append((ls, ls + le2, ins_text + '\n', 'rw', {'D': did, 'old': old, 'dir': d['d'], 'region': True}))
        elif kw == 'strip':
            for mm in re.finditer(r'(?m)^[ \t]*(#\[[^\n]*\]|///[^\n]*)\n', text):
                edits.append((mm.start(), mm.end(), '', 'rw', {'D': 'D0', 'old': mm.group(0), 'dir': d['d']}))
        else:
            raise ExtractError('%s:%d: unknown directive %s' % (tmpl_path, d['line'], kw))

    if canary and bo_rel is not None:
        for d in item['dirs']:
            words = d['d'].split()
            txt = '\n'.join(d['text'])
            if words[0] == 'sig' and re.search(r'\brequires\b', txt):
                edits.append((bo_rel + 1, bo_rel + 1, ' proof { assert(false); } /*CANARY:pre:%s*/\n' % what, 'ins',
                              {'tline': d['line'], 'dir': 'canary'}))
            if words[0] in ('loop', 'forloop') and re.search(r'\binvariant\b', txt):
                ks, kword, lbo = get_loops()[int(words[1]) - 1]
                edits.append((lbo + 1, lbo + 1, ' proof { assert(false); } /*CANARY:inv%s:%s*/\n' % (words[1], what), 'ins',
                              {'tline': d['line'], 'dir': 'canary'}))
    # order edits; insertions at the same point keep template order
    edits_sorted = sorted(enumerate(edits), key=lambda t: (t[1][0], 0 if t[1][0] != t[1][1] else 1, t[0]))
    # region / rewrite replacing a range must not overlap others
    segs = []
    pos = 0
    last_end = 0
    for _, (a, b, new, kind, meta) in edits_sorted:
        if a < last_end:
            raise ExtractError('overlapping edits in ' + what + ': ' + meta.get('dir', ''))
        if a > pos:
            segs.append(Seg(text[pos:a], 'src', {'file': relfile, 'off': pos}))
        segs.append(Seg(new, kind, dict(meta)))
        pos = b
        last_end = b if b > a else last_end
    if pos < len(text):
        segs.append(Seg(text[pos:], 'src', {'file': relfile, 'off': pos}))

    # round trip: src segments + 'old' of rewrites == original bytes
    back = ''.join(sg.text if sg.kind == 'src' else (sg.meta.get('old', '') if sg.kind == 'rw' else '') for sg in segs)
    if back != text:
        raise ExtractError('round-trip check failed for ' + what)
    for sg in segs:
        if sg.kind == 'rw':
            rewrites.append({'D': sg.meta['D'], 'old': sg.meta.get('old', '')[:200], 'new': sg.text[:200]})
    # module-level constants of the same source file that the item mentions (e.g. a limit introduced next to
    # the function): they are cut out verbatim and emitted with the unit, so that a change that adds one is
    # still decided instead of failing to resolve
    auto_consts = []
    if comps[-1].startswith('fn '):
        for m in set(re.findall(r'\b([A-Z][A-Z0-9_]{2,})\b', text)):
            try:
                cs, ce, _ = rsx.locate(src, ['const ' + m])
            except ExtractError:
                continue
            ctext = src[cs:ce]
            if s <= cs < e:
                continue  # declared inside the item itself
            auto_consts.append((m, ctext))
    info = {
        'auto_consts': auto_consts,
        'item': what, 'file': relfile, 'first_line': first_line, 'sha256': sha(text),
        'props': props, 'rewrites': rewrites, 'tline': item['line'], 'lost_hints': lost_hints,
        'name': comps[-1].split(None, 1)[-1] if ' ' in comps[-1] else comps[-1],
        'path': comps,
    }
    return segs, info, text, first_line


def assemble(tmpl_path, out_path, canary=False):
    parts = parse_template(tmpl_path)
    out_lines_meta = []  # per output line: dict
    out_text = []
    items = []
    cur_line = 1

    def emit(text, meta_fn):
        nonlocal cur_line
        # text may contain several lines and may not end with newline
        out_text.append(text)

    # We build the whole text first with a parallel list of (char_count, meta) runs,
    # then derive per-line provenance from the run that contains the line's first
    # non-blank character.
    runs = []
    safety_props = []
    emitted_consts = set()
    pending_consts = []
    tmpl_text = '\n'.join(p[2] for p in parts if p[0] == 'text')
    for kind, lineno, payload in parts:
        if kind == 'text' and payload.strip().startswith('//@@ safety '):
            safety_props += payload.split()[2:]
            continue
        if kind == 'text':
            if payload.strip().startswith('fn main()') and pending_consts:
                for ct in pending_consts:
                    runs.append((ct, {'k': 'tmpl', 'tline': lineno}))
                pending_consts = []
            runs.append((payload + '\n', {'k': 'tmpl', 'tline': lineno}))
        else:
            segs, info, text, first_line = build_item(payload, tmpl_path, canary)
            idx = len(items)
            items.append(info)
            for cname, ctext in info.pop('auto_consts'):
                if cname in emitted_consts or re.search(r'\bconst\s+' + cname + r'\b', tmpl_text):
                    continue
                # already extracted explicitly by another item of this unit?
                if any(re.search(r'\bconst\s+' + cname + r'\b', r0[0]) for r0 in runs if r0[1].get('k') == 'src'):
                    continue
                emitted_consts.add(cname)
                ct = re.sub(r'^pub\s*\(\s*crate\s*\)\s*', 'pub ', ctext)
                ct = re.sub(r':\s*&str\b', ": &'static str", ct)
                pending_consts.append('// auto-extracted module-level constant referenced by ' + info['item'] + '\n' + ct + '\n')
            for sg in segs:
                if sg.kind == 'src':
                    base_line = first_line + text.count('\n', 0, sg.meta['off'])
                    runs.append((sg.text, {'k': 'src', 'item': idx, 'file': info['file'], 'line0': base_line}))
                elif sg.kind == 'ins':
                    runs.append((sg.text, {'k': 'ins', 'item': idx, 'tline': sg.meta['tline'], 'lead_nl': sg.text.startswith('\n')}))
                else:
                    runs.append((sg.text, {'k': 'rw', 'item': idx, 'D': sg.meta['D']}))
            runs.append(('\n', {'k': 'tmpl', 'tline': lineno}))
    full = ''.join(r[0] for r in runs)
    # per-line provenance
    linemap = []
    # compute for each run its start offset
    offs = []
    p = 0
    for t, m in runs:
        offs.append(p)
        p += len(t)
    import bisect
    line_starts = [0]
    for mm in re.finditer('\n', full):
        line_starts.append(mm.end())
    item_lines = {}
    for li, ls in enumerate(line_starts):
        le = full.find('\n', ls)
        le = len(full) if le < 0 else le
        # first non-blank char
        q = ls
        while q < le and full[q] in ' \t':
            q += 1
        if q >= le:
            q = ls
        ri = bisect.bisect_right(offs, q) - 1
        t, m = runs[ri]
        ent = {'k': m['k']}
        rel = full.count('\n', offs[ri], q)
        if m['k'] == 'tmpl':
            ent['tline'] = m['tline']
        elif m['k'] == 'src':
            ent['item'] = m['item']
            ent['file'] = m['file']
            ent['line'] = m['line0'] + rel
        elif m['k'] == 'ins':
            ent['item'] = m['item']
            ent['tline'] = m['tline'] + rel - (1 if m.get('lead_nl') else 0)
        else:
            ent['item'] = m['item']
            ent['D'] = m['D']
        if 'item' in ent:
            item_lines.setdefault(ent['item'], [li + 1, li + 1])[1] = li + 1
        linemap.append(ent)
    for idx, rng in item_lines.items():
        items[idx]['out_lines'] = rng
    os.makedirs(os.path.dirname(out_path), exist_ok=True)
    # atomic: two checks that share a unit may assemble it at the same time (the text is the same)
    _tmp = '%s.%d.%d.tmp' % (out_path, os.getpid(), __import__('threading').get_ident())
    with open(_tmp, 'w', encoding='utf-8') as f:
        f.write(full)
    os.replace(_tmp, out_path)
    canary_lines = []
    for li, ln in enumerate(full.split('\n')):
        m = re.search(r'/\*CANARY:([^*]*)\*/', ln)
        if m:
            canary_lines.append({'line': li + 1, 'what': m.group(1)})
    meta = {'template': tmpl_path, 'out': out_path, 'items': items, 'linemap': linemap, 'canary_lines': canary_lines, 'safety_props': safety_props}
    _tmp = '%s.map.json.%d.%d.tmp' % (out_path, os.getpid(), __import__('threading').get_ident())
    with open(_tmp, 'w') as f:
        json.dump(meta, f)
    os.replace(_tmp, out_path + '.map.json')
    return meta


if __name__ == '__main__':
    try:
        m = assemble(sys.argv[1], sys.argv[2])
        print('assembled %d items -> %s' % (len(m['items']), sys.argv[2]))
    except ExtractError as ex:
        print('UNDECIDED: ' + str(ex))
        sys.exit(2)
