//! Replay / bounded-conformance driver.  This file is NOT part of riti: the checks copy
//! /repo to a scratch directory, put this file there as `src/verif_driver.rs`, add
//! `#[cfg(openbangla_riti_verif)] pub mod verif_driver;` to the copy's lib.rs and build
//! with `--cfg openbangla_riti_verif`.  It lives inside the crate so that it can call the
//! crate-private functions a contract talks about, unmodified.
#![allow(dead_code)]
use std::panic::{catch_unwind, AssertUnwindSafe};

use serde_json::{json, Value};

use crate::config::Config;
use crate::context::RitiContext;
use crate::suggestion::Suggestion;

#[path = "verif_bounded.rs"]
mod bounded;

fn keycode(v: &Value) -> u16 {
    if let Some(n) = v.as_u64() {
        return n as u16;
    }
    let s = v.as_str().expect("key must be a number or a one-character string");
    keycode_of(s.chars().next().unwrap())
}

pub(crate) fn has_key(c: char) -> bool {
    c.is_ascii_alphanumeric() || "`~!@#$%^&*()_+-=[]\\{}|;',./:\"<>?".contains(c)
}

pub(crate) fn data_dir() -> String { std::env::var("VERIF_DATA_DIR").unwrap_or("/repo/data".into()) }
pub(crate) fn synthetic_layout() -> String { std::env::var("VERIF_SYNTH_LAYOUT").unwrap_or("/verif/data/synthetic_layout.json".into()) }
pub(crate) fn probhat_layout() -> String { format!("{}/Probhat.json", data_dir()) }
pub(crate) fn gen_file(name: &str) -> String { format!("{}/{}", std::env::var("VERIF_GEN_DIR").unwrap_or("/verif/build/gen".into()), name) }
pub(crate) fn user_dir() -> String { format!("{}/openbangla-keyboard", std::env::var("XDG_DATA_HOME").expect("XDG_DATA_HOME")) }
pub(crate) fn user_file_path(name: &str) -> String { format!("{}/{}", user_dir(), name) }
pub(crate) fn read_user_file(name: &str) -> Option<String> { std::fs::read_to_string(user_file_path(name)).ok() }
pub(crate) fn reset_user_files() {
    std::fs::create_dir_all(user_dir()).unwrap();
    for f in ["phonetic-candidate-selection.json", "autocorrect.json"] { let _ = std::fs::remove_file(user_file_path(f)); }
}
pub(crate) fn remove_key_from_store(key: &str) {
    let p = user_file_path("phonetic-candidate-selection.json");
    if let Ok(t) = std::fs::read_to_string(&p) {
        if let Ok(mut m) = serde_json::from_str::<std::collections::BTreeMap<String, String>>(&t) {
            m.remove(key);
            let _ = std::fs::write(&p, serde_json::to_string(&m).unwrap());
        }
    }
}
pub(crate) fn remove_user_dir() { let _ = std::fs::remove_dir_all(user_dir()); }
pub(crate) fn set_mtime(path: &str, secs: u64) {
    let f = std::fs::OpenOptions::new().write(true).open(path).unwrap();
    f.set_modified(std::time::UNIX_EPOCH + std::time::Duration::from_secs(secs)).unwrap();
}

pub(crate) fn keycode_of(c: char) -> u16 {
    match c {
        'a'..='z' => 0xA096 + (c as u16 - 'a' as u16),
        'A'..='Z' => 0xA0B4 + (c as u16 - 'A' as u16),
        '1'..='9' => 0x0002 + (c as u16 - '1' as u16),
        '0' => 0x000B,
        '`' => 0x0029, '~' => 0x0001, '!' => 0x003B, '@' => 0x003C, '#' => 0x003D, '$' => 0x003E, '%' => 0x003F,
        '^' => 0x0040, '&' => 0x0041, '*' => 0x0042, '(' => 0x0043, ')' => 0x0044, '_' => 0x0057, '+' => 0x0058,
        '-' => 0x000C, '=' => 0x000D, '[' => 0x001A, ']' => 0x001B, '\\' => 0x002B, '{' => 0x005B, '}' => 0x005C,
        '|' => 0x005D, ';' => 0x0027, '\'' => 0x0028, ',' => 0x0033, '.' => 0x0034, '/' => 0x0035, ':' => 0x0063,
        '"' => 0x0064, '<' => 0x0065, '>' => 0x0066, '?' => 0x0067,
        '\u{8}' => 0xFFFF, // not a key: used by generators for "backspace"
        _ => panic!("no key for {c}"),
    }
}

pub(crate) fn make_config(c: &Value) -> Config {
    let mut cfg = Config::default();
    let layout = c["layout"].as_str().unwrap_or("avro_phonetic");
    assert!(cfg.set_layout_file_path(layout), "layout path invalid: {layout}");
    if let Some(d) = c["database_dir"].as_str() {
        assert!(cfg.set_database_dir(d));
    }
    if let Some(order) = c["setter_order"].as_array() {
        // options applied in the given order (the C setters are order sensitive if the engine couples options)
        for k in order {
            let mut one = json!({});
            one[k.as_str().unwrap()] = c[k.as_str().unwrap()].clone();
            apply_options(&mut cfg, &one);
        }
        let mut rest = c.clone();
        for k in order { rest.as_object_mut().unwrap().remove(k.as_str().unwrap()); }
        apply_options(&mut cfg, &rest);
    } else {
        apply_options(&mut cfg, c);
    }
    cfg
}

fn apply_options(cfg: &mut Config, c: &Value) {
    let b = |k: &str| c[k].as_bool();
    if let Some(v) = b("phonetic_suggestion") { cfg.set_phonetic_suggestion(v) }
    if let Some(v) = b("include_english") { cfg.set_suggestion_include_english(v) }
    if let Some(v) = b("fixed_suggestion") { cfg.set_fixed_suggestion(v) }
    if let Some(v) = b("fixed_vowel") { cfg.set_fixed_automatic_vowel(v) }
    if let Some(v) = b("fixed_chandra") { cfg.set_fixed_automatic_chandra(v) }
    if let Some(v) = b("fixed_kar") { cfg.set_fixed_traditional_kar(v) }
    if let Some(v) = b("fixed_old_reph") { cfg.set_fixed_old_reph(v) }
    if let Some(v) = b("fixed_numpad") { cfg.set_fixed_numpad(v) }
    if let Some(v) = b("fixed_kar_order") { cfg.set_fixed_old_kar_order(v) }
    if let Some(v) = b("ansi") { cfg.set_ansi_encoding(v) }
    if let Some(v) = b("smart_quote") { cfg.set_smart_quote(v) }
}

pub(crate) fn show(s: &Suggestion) -> Value {
    if s.is_lonely() {
        json!({"single": s.get_lonely_suggestion(), "pre_edit": s.get_pre_edit_text(0)})
    } else {
        let n = s.len();
        let pre: Vec<String> = (0..n).map(|i| s.get_pre_edit_text(i)).collect();
        json!({"aux": s.get_auxiliary_text(), "sel": s.previously_selected_index(), "list": s.get_suggestions(), "pre_edit": pre})
    }
}

/// Executes one history.  `{"user_dir": dir, "files": {name: content}, "config": {...}, "events": [...]}`
/// events: {"key": "a"|code, "mod": 0, "sel": 0} | {"type": "text", "sel": 0} | {"backspace": false} |
///         {"commit": i} | "finish" | {"update": {options / layout}} | {"write": [name, content]} |
///         {"remove": name} | "ongoing" | "new_context" | {"other_context": {"config": {...}, "type": "text"}}
pub(crate) fn run_history(h: &Value) -> Value {
    if let Some(d) = h["user_dir"].as_str() {
        std::env::set_var("XDG_DATA_HOME", d);
        let dir = format!("{d}/openbangla-keyboard");
        if h["no_user_dir"].as_bool() != Some(true) {
            std::fs::create_dir_all(&dir).unwrap();
            if h["keep_files"].as_bool() != Some(true) {
                for f in ["phonetic-candidate-selection.json", "autocorrect.json"] {
                    let _ = std::fs::remove_file(format!("{dir}/{f}"));
                }
            }
        }
        if let Some(files) = h["files"].as_object() {
            for (name, content) in files {
                std::fs::write(format!("{dir}/{name}"), content.as_str().unwrap()).unwrap();
            }
        }
    }
    let mut trace = Vec::new();
    let mut cfgv = h["config"].clone();
    let r = catch_unwind(AssertUnwindSafe(|| {
        let mut cfg = make_config(&cfgv);
        let mut ctx = RitiContext::new_with_config(&cfg);
        for ev in h["events"].as_array().unwrap() {
            let out = if let Some(k) = ev.get("key") {
                let s = ctx.get_suggestion_for_key(keycode(k), ev["mod"].as_u64().unwrap_or(0) as u8, ev["sel"].as_u64().unwrap_or(0) as u8);
                show(&s)
            } else if let Some(t) = ev.get("type") {
                // "follow": true passes, like a front end, the preselected index of the list shown before
                let follow = ev["follow"].as_bool() == Some(true);
                let mut last = Value::Null;
                let mut sel = ev["sel"].as_u64().unwrap_or(0) as u8;
                for c in t.as_str().unwrap().chars() {
                    let s = ctx.get_suggestion_for_key(keycode(&json!(c.to_string())), 0, sel);
                    if follow && !s.is_lonely() { sel = s.previously_selected_index() as u8; }
                    last = show(&s);
                }
                last
            } else if let Some(b) = ev.get("backspace") {
                show(&ctx.backspace_event(b.as_bool().unwrap_or(false)))
            } else if let Some(i) = ev.get("commit") {
                ctx.candidate_committed(i.as_u64().unwrap() as usize);
                json!("committed")
            } else if ev == "finish" {
                ctx.finish_input_session();
                json!("finished")
            } else if ev == "ongoing" {
                json!({"ongoing": ctx.ongoing_input_session()})
            } else if let Some(u) = ev.get("update") {
                if let Some(l) = u["layout"].as_str() {
                    assert!(cfg.set_layout_file_path(l));
                    cfgv["layout"] = json!(l);
                }
                apply_options(&mut cfg, u);
                ctx.update_engine(&cfg);
                json!("updated")
            } else if let Some(w) = ev.get("write") {
                let d = h["user_dir"].as_str().unwrap();
                std::fs::write(format!("{d}/openbangla-keyboard/{}", w[0].as_str().unwrap()), w[1].as_str().unwrap()).unwrap();
                json!("written")
            } else if let Some(n) = ev.get("remove") {
                let d = h["user_dir"].as_str().unwrap();
                let p = format!("{d}/openbangla-keyboard/{}", n.as_str().unwrap());
                if n == "." { let _ = std::fs::remove_dir_all(format!("{d}/openbangla-keyboard")); } else { let _ = std::fs::remove_file(p); }
                json!("removed")
            } else if let Some(n) = ev.get("read") {
                let d = h["user_dir"].as_str().unwrap();
                json!({"content": std::fs::read_to_string(format!("{d}/openbangla-keyboard/{}", n.as_str().unwrap())).ok()})
            } else if ev.get("note").is_some() {
                json!("note")
            } else if let Some(oc) = ev.get("other_context") {
                // a second, independent context (own configuration) composes a text and is dropped again
                let ocfg = make_config(&oc["config"]);
                let mut other = RitiContext::new_with_config(&ocfg);
                let mut last = Value::Null;
                for c in oc["type"].as_str().unwrap().chars() { last = show(&other.get_suggestion_for_key(keycode(&json!(c.to_string())), 0, 0)); }
                other.finish_input_session();
                json!({"other_context": last})
            } else if ev == "new_context" {
                ctx = RitiContext::new_with_config(&cfg);
                json!("new_context")
            } else {
                panic!("unknown event {ev}");
            };
            trace.push(out);
        }
    }));
    match r {
        Ok(()) => json!({"panic": null, "trace": trace}),
        Err(e) => {
            let msg = e.downcast_ref::<String>().map(|s| s.as_str()).or(e.downcast_ref::<&str>().copied()).unwrap_or("?").to_string();
            json!({"panic": msg, "trace": trace})
        }
    }
}

pub fn main() {
    std::panic::set_hook(Box::new(|_| {}));
    let args: Vec<String> = std::env::args().collect();
    match args.get(1).map(|s| s.as_str()) {
        Some("history") => {
            // one JSON history per line on stdin (or a file), one JSON result per line on stdout
            let text = if let Some(f) = args.get(2) { std::fs::read_to_string(f).unwrap() } else { std::io::read_to_string(std::io::stdin()).unwrap() };
            for line in text.lines() {
                if line.trim().is_empty() { continue; }
                let h: Value = serde_json::from_str(line).unwrap();
                println!("{}", run_history(&h));
            }
        }
        Some("bounded") => {
            if std::env::var("XDG_DATA_HOME").is_err() {
                let d = format!("/tmp/riti-verif-ud-{}", std::process::id());
                std::env::set_var("XDG_DATA_HOME", &d);
            }
            reset_user_files();
            let name = args.get(2).expect("bounded <check> <bound> [shard n]");
            let bound: usize = args.get(3).map(|s| s.parse().unwrap()).unwrap_or(4);
            let shard: usize = args.get(4).map(|s| s.parse().unwrap()).unwrap_or(0);
            let nshards: usize = args.get(5).map(|s| s.parse().unwrap()).unwrap_or(1);
            // a panic that escapes a check is itself a finding: "returns normally" (C01), with the history that was being
            // executed (Sess records it before every call into the engine)
            std::panic::set_hook(Box::new(|info| { bounded::note_panic(info.to_string()); }));
            let r = match catch_unwind(AssertUnwindSafe(|| bounded::run(name, bound, shard, nshards))) {
                Ok(r) => r,
                Err(_) => {
                    let (hist, msg) = bounded::last_call();
                    json!({"check": name, "bound": bound, "cases": 1, "nontrivial": 1, "samples": [], "domain": "aborted by a panic",
                           "failures": [{"clause": "C01 every in-contract call sequence returns normally (the engine panicked)", "history": hist, "observed": msg}]})
                }
            };
            let ud = std::env::var("XDG_DATA_HOME").unwrap();
            if ud.contains("/riti-verif-ud-") { let _ = std::fs::remove_dir_all(&ud); }
            println!("{r}");
        }
        _ => {
            eprintln!("usage: verif_driver history [file] | bounded <check> <bound> [shard nshards]");
            std::process::exit(2);
        }
    }
}
