
// ---- verification hook, appended to a scratch copy of src/phonetic/mod.rs only ----
#[cfg(openbangla_riti_verif_internal)]
pub(crate) use suggestion::PhoneticSuggestion as VerifPhoneticSuggestion;
