//! Bounded conformance checks of the real riti code against executable forms of the contracts
//! (DESIGN.md 4.3).  They are the *bounded stand-ins*: every check enumerates a stated finite
//! domain completely (no randomness unless a seed is stated) and returns
//! {"check","bound","cases","nontrivial","failures":[{clause, history|input, observed, expected}],"samples"}.
//! A failure is a concrete input that can be replayed with `verif_driver history`.
use serde_json::{json, Value};

use crate::context::RitiContext;
use crate::suggestion::Suggestion;
use crate::verif_driver::{make_config, show};

pub(crate) fn run(name: &str, bound: usize, shard: usize, nshards: usize) -> Value {
    match name {
        "reph" => reph::run(bound, shard, nshards),
        "split" => split::run(bound, shard, nshards),
        #[cfg(openbangla_riti_verif_internal)]
        "backspace_step" => misc::backspace_step(bound),
        #[cfg(openbangla_riti_verif_internal)]
        "layout_values" => misc::layout_values(),
        #[cfg(not(openbangla_riti_verif_internal))]
        "backspace_step" | "layout_values" => json!({"check": name, "error": "needs the internal hooks, which do not compile against the current tree"}),
        "phonetic_api" => api::phonetic(bound, shard, nshards),
        "fixed_api" => api::fixed(bound, shard, nshards),
        "history_independence" => api::history_independence(bound),
        "learn_recall" => api::learn_recall(bound),
        "user_files" => api::user_files(bound),
        "update_engine" => api::update_engine(bound),
        "layout_api" => api::layout_api(bound),
        "smart_quote" => api::smart_quote(bound),
        "ansi" => api::ansi(bound),
        "emoji_tables" => api::emoji_tables(bound, shard, nshards),
        "fixed_dict" => api::fixed_dict(bound, shard, nshards),
        "suffix_forms" => api::suffix_forms(bound),
        "fixed_rules" => rules::run(bound, shard, nshards),
        _ => json!({"check": name, "error": "unknown check"}),
    }
}

/// all strings of length <= n over `alpha`, in length-lexicographic order, sharded by index
pub(crate) fn for_all_strings(alpha: &[char], n: usize, shard: usize, nshards: usize, mut f: impl FnMut(&str)) -> u64 {
    let mut count: u64 = 0;
    let mut idx: u64 = 0;
    let mut s = String::new();
    for len in 0..=n {
        let mut digits = vec![0usize; len];
        'outer: loop {
            if idx % nshards as u64 == shard as u64 {
                s.clear();
                for &d in &digits { s.push(alpha[d]); }
                f(&s);
                count += 1;
            }
            idx += 1;
            let mut k = len;
            loop {
                if k == 0 { break 'outer; }
                k -= 1;
                digits[k] += 1;
                if digits[k] < alpha.len() { break; }
                digits[k] = 0;
            }
        }
    }
    count
}

pub(crate) struct Out {
    pub name: &'static str,
    pub bound: usize,
    pub cases: u64,
    pub nontrivial: u64,
    pub failures: Vec<Value>,
    pub samples: Vec<Value>,
    pub domain: String,
}
impl Out {
    pub fn new(name: &'static str, bound: usize, domain: &str) -> Self {
        Out { name, bound, cases: 0, nontrivial: 0, failures: Vec::new(), samples: Vec::new(), domain: domain.to_string() }
    }
    pub fn fail(&mut self, v: Value) { if self.failures.len() < 25 { self.failures.push(v); } }
    pub fn sample(&mut self, v: Value) { if self.samples.len() < 4 { self.samples.push(v); } }
    pub fn done(self) -> Value {
        json!({"check": self.name, "bound": self.bound, "cases": self.cases, "nontrivial": self.nontrivial,
               "failures": self.failures, "samples": self.samples, "domain": self.domain})
    }
}

/// true when the hooks into private items (struct literal of FixedMethod, the memo field of PhoneticSuggestion) compiled
pub(crate) const INTERNAL: bool = cfg!(openbangla_riti_verif_internal);

// ---------------------------------------------------------------------------------------------
mod reph {
    use super::*;
    #[cfg(openbangla_riti_verif_internal)]
    use crate::fixed::method::FixedMethod;
    use crate::utility::Utility;

    /// without the private hooks: the same strings typed with the keys of the synthetic layout (every helper off, old-style reph
    /// on, single-string suggestions), the composed text read back, then the reph key; returns (text before, text after)
    #[cfg(not(openbangla_riti_verif_internal))]
    fn through_api(ctx: &RitiContext, s: &str) -> (String, String) {
        let key_of = |c: char| -> char { match c { 'ক' => 't', 'র' => 'u', '\u{09CD}' => 'w', 'া' => 'p', 'ই' => 'v', '\u{0981}' => 'o', '\u{200D}' => '`', '\u{200C}' => '\\', '।' => 'x', _ => 'L' } };
        ctx.finish_input_session();
        let mut before = String::new();
        for c in s.chars() {
            let sg = ctx.get_suggestion_for_key(crate::verif_driver::keycode_of(key_of(c)), 0, 0);
            before = if sg.is_empty() { String::new() } else { sg.get_lonely_suggestion().to_string() };
        }
        let sg = ctx.get_suggestion_for_key(crate::verif_driver::keycode_of('q'), 0, 0);
        let after = if sg.is_empty() { String::new() } else { sg.get_lonely_suggestion().to_string() };
        ctx.finish_input_session();
        (before, after)
    }

    const H: char = '\u{09CD}';
    const CH: char = '\u{0981}';

    fn conj_start(p: &[char], e: usize) -> usize {
        if e > 0 && p[e - 1].is_pure_consonant() {
            if e >= 3 && p[e - 2] == H && p[e - 3].is_pure_consonant() { conj_start(p, e - 2) } else { e - 1 }
        } else { e }
    }
    /// the position the C13 statement prescribes
    pub(crate) fn reph_pos(p: &[char]) -> usize {
        let n = p.len();
        let a = if n > 0 && p[n - 1] == CH { 1 } else { 0 };
        let b = if n - a > 0 && p[n - a - 1].is_vowel() { 1 } else { 0 };
        let e = n - a - b;
        let s = conj_start(p, e);
        if s < e { s } else { n }
    }
    fn wf(p: &[char]) -> bool {
        (0..p.len()).all(|i| p[i] != H || (i > 0 && p[i - 1].is_pure_consonant()))
    }

    pub(crate) fn run(bound: usize, shard: usize, nshards: usize) -> Value {
        let alpha = ['ক', 'র', H, 'া', 'ই', CH, '\u{200D}', '\u{200C}', '।', 'ং'];
        let mut o = Out::new("reph", bound, if INTERNAL { "all strings of length <= bound over {ক, র, hasanta, া, ই, chandrabindu, ZWJ, ZWNJ, ।, ং}" } else { "the composed texts of all key strings of length <= bound-1 over the synthetic-layout keys for {ক, র, hasanta, া, ই, chandrabindu, ZWJ, ZWNJ, ।, ং}, through the public API (the private hooks do not compile against this tree)" });
        let mut fails = Vec::new();
        let mut nontrivial = 0u64;
        let mut samples = Vec::new();
        #[cfg(not(openbangla_riti_verif_internal))]
        let bound = bound.saturating_sub(1).max(3);
        #[cfg(not(openbangla_riti_verif_internal))]
        let ctx = RitiContext::new_with_config(&make_config(&json!({"layout": crate::verif_driver::synthetic_layout(), "database_dir": crate::verif_driver::data_dir(),
            "phonetic_suggestion": false, "include_english": false, "fixed_suggestion": false, "fixed_vowel": false, "fixed_chandra": false, "fixed_kar": false,
            "fixed_old_reph": true, "fixed_numpad": false, "fixed_kar_order": false, "ansi": false, "smart_quote": false})));
        o.cases = for_all_strings(&alpha, bound, shard, nshards, |s| {
            #[cfg(openbangla_riti_verif_internal)]
            let r = std::panic::catch_unwind(|| {
                let mut m = FixedMethod::verif_with_buffer(s);
                m.verif_insert_old_style_reph();
                (s.to_string(), m.verif_buffer().to_string())
            });
            #[cfg(not(openbangla_riti_verif_internal))]
            let r = std::panic::catch_unwind(std::panic::AssertUnwindSafe(|| through_api(&ctx, s)));
            let (p, r): (Vec<char>, Result<String, ()>) = match r { Ok((b, a)) => (b.chars().collect(), Ok(a)), Err(_) => (s.chars().collect(), Err(())) };
            let exp_pos = reph_pos(&p);
            let mut exp: String = p[..exp_pos].iter().collect();
            exp.push('র'); exp.push(H);
            exp.extend(p[exp_pos..].iter());
            match r {
                Err(_) => fails.push(json!({"input": s, "observed": "panic", "clause": "C01/C13 returns normally"})),
                Ok(out) => {
                    let ov: Vec<char> = out.chars().collect();
                    let cons = ov.len() == p.len() + 2 && (0..=p.len()).any(|k| ov[..k] == p[..k] && ov[k] == 'র' && ov[k + 1] == H && ov[k + 2..] == p[k..]);
                    if !cons {
                        fails.push(json!({"input": s, "observed": out, "clause": "C13 conservation"}));
                    } else if wf(&p) && out != exp {
                        fails.push(json!({"input": s, "observed": out, "expected": exp, "clause": "C13 placement"}));
                    }
                    if wf(&p) && exp_pos < p.len() { nontrivial += 1; if samples.len() < 4 { samples.push(json!({"input": s, "output": out})); } }
                }
            }
        });
        o.nontrivial = nontrivial;
        for f in fails { o.fail(f); }
        for s in samples { o.sample(s); }
        o.done()
    }
}

// ---------------------------------------------------------------------------------------------
/// executable form of split_spec (spec/common/split.vrs), written over Vec<char>
pub(crate) mod split {
    use super::*;
    use crate::utility::SplittedString;

    pub(crate) fn is_meta(c: char) -> bool {
        "-]~!@#%&*()_=+[{}'\";<>/?|.,\u{0964}\u{2018}\u{2019}\u{201C}\u{201D}".contains(c)
    }
    pub(crate) fn split_exec(s: &[char], colon: bool) -> (String, String, String) {
        let mut f = 0;
        while f < s.len() && is_meta(s[f]) { f += 1; }
        if f == s.len() { return (s.iter().collect(), String::new(), String::new()); }
        let rest = &s[f..];
        let mut n = rest.len();
        let mut last = rest.len();
        let mut escape = false;
        while n > 0 {
            let c = rest[n - 1];
            if !escape && c == '`' { escape = true; n -= 1; }
            else if ((colon || escape) && c == ':') || is_meta(c) { escape = false; last = n - 1; n -= 1; }
            else { break; }
        }
        (s[..f].iter().collect(), rest[..last].iter().collect(), rest[last..].iter().collect())
    }

    pub(crate) fn run(bound: usize, shard: usize, nshards: usize) -> Value {
        // one representative of every class the code distinguishes
        let alpha = ['a', '1', '`', ':', '\'', '"', '.', ')', '\u{0964}', '\u{0983}', 'ক', '\u{201C}'];
        let mut o = Out::new("split", bound, "all strings of length <= bound over {a,1,`,:,',\",.,),।,ঃ,ক,“} x include_colon");
        let mut fails = Vec::new();
        let mut nt = 0u64;
        o.cases = 2 * for_all_strings(&alpha, bound, shard, nshards, |s| {
            let cs: Vec<char> = s.chars().collect();
            for colon in [false, true] {
                let exp = split_exec(&cs, colon);
                let g = match std::panic::catch_unwind(|| { let got = SplittedString::split(s, colon); (got.preceding().to_string(), got.word().to_string(), got.trailing().to_string()) }) {
                    Ok(g) => g,
                    Err(_) => { if fails.len() < 6 { fails.push(json!({"clause": "C01 C03 C17 split returns for every text (panic)", "input": s, "include_colon": colon, "history": {"config": {"layout": "avro_phonetic", "phonetic_suggestion": true}, "events": [{"type": s}]}})); } continue; }
                };
                if g != exp {
                    // the curved quotes are punctuation because smart quoting produces them: a displayed candidate is split again
                    // when a choice is learned (C09) and the fixed method splits its own buffer (C17)
                    let clause = if s.contains(|c| "\u{2018}\u{2019}\u{201C}\u{201D}".contains(c)) { "C17 C09 C03 split == split_spec (curved quotes are wrapping punctuation)" } else { "C03 split == split_spec" };
                    fails.push(json!({"clause": clause, "input": s, "include_colon": colon, "observed": [g.0, g.1, g.2], "expected": [exp.0, exp.1, exp.2]}));
                }
                if !exp.1.is_empty() && (!exp.0.is_empty() || !exp.2.is_empty()) { nt += 1; }
            }
        });
        o.nontrivial = nt;
        for f in fails { o.fail(f); }
        o.sample(json!({"input": "\"a:`.", "expected": split_exec(&"\"a:`.".chars().collect::<Vec<_>>(), false)}));
        o.done()
    }
}

// ---------------------------------------------------------------------------------------------
#[cfg(openbangla_riti_verif_internal)]
mod misc {
    use super::*;
    use crate::fixed::method::FixedMethod;

    pub(crate) fn backspace_step(bound: usize) -> Value {
        let alpha = ['a', '\u{00E9}', 'ক', '😀'];
        let mut o = Out::new("backspace_step", bound, "all strings of length <= bound over {1,2,3,4-byte char} x n <= bound+1");
        let mut fails = Vec::new();
        o.cases = for_all_strings(&alpha, bound, 0, 1, |s| {
            let cs: Vec<char> = s.chars().collect();
            for n in 0..=bound + 1 {
                let mut m = FixedMethod::verif_with_buffer(s);
                m.verif_internal_backspace_step(n);
                let keep = cs.len() - n.min(cs.len());
                let exp: String = cs[..keep].iter().collect();
                if m.verif_buffer() != exp {
                    fails.push(json!({"clause": "C13 internal_backspace_step removes the last min(n,len) code points", "input": s, "n": n, "observed": m.verif_buffer(), "expected": exp}));
                }
            }
        }) * (bound as u64 + 2);
        o.nontrivial = o.cases / 2;
        for f in fails { o.fail(f); }
        o.sample(json!({"input": "aক😀", "n": 2, "expected": "a"}));
        o.done()
    }

    pub(crate) fn layout_values() -> Value {
        crate::fixed::method::verif_layout_values()
    }
}

// ---------------------------------------------------------------------------------------------
thread_local! {
    static LAST_CALL: std::cell::RefCell<Value> = std::cell::RefCell::new(Value::Null);
    static LAST_PANIC: std::cell::RefCell<String> = std::cell::RefCell::new(String::new());
}
pub(crate) fn note_panic(msg: String) { LAST_PANIC.with(|p| *p.borrow_mut() = msg); }
/// the history whose last event was being executed when the engine was entered last, and the last panic message
pub(crate) fn last_call() -> (Value, String) { (LAST_CALL.with(|l| l.borrow().clone()), LAST_PANIC.with(|p| p.borrow().clone())) }

pub(crate) struct Sess {
    pub cfgv: Value,
    pub ctx: RitiContext,
    pub events: Vec<Value>,
}
impl Sess {
    pub fn new(cfgv: Value) -> Self {
        let cfg = make_config(&cfgv);
        Sess { cfgv, ctx: RitiContext::new_with_config(&cfg), events: Vec::new() }
    }
    pub fn key(&mut self, c: char, sel: u8) -> Suggestion {
        self.events.push(json!({"key": c.to_string(), "sel": sel}));
        self.note();
        self.ctx.get_suggestion_for_key(crate::verif_driver::keycode_of(c), 0, sel)
    }
    pub fn typ(&mut self, text: &str) -> Option<Suggestion> {
        let mut last = None;
        let mut sel = 0u8;
        for c in text.chars() {
            let s = self.key(c, sel);
            if !s.is_lonely() { sel = s.previously_selected_index() as u8; }
            last = Some(s);
        }
        last
    }
    pub fn code_mod(&mut self, code: u16, modifier: u8, sel: u8) -> Suggestion {
        self.events.push(json!({"key": code, "mod": modifier, "sel": sel}));
        self.note();
        self.ctx.get_suggestion_for_key(code, modifier, sel)
    }
    pub fn code(&mut self, code: u16, sel: u8) -> Suggestion {
        self.events.push(json!({"key": code, "sel": sel}));
        self.note();
        self.ctx.get_suggestion_for_key(code, 0, sel)
    }
    /// update_engine with a complete configuration (every option explicit)
    pub fn update(&mut self, cfgv: &Value) {
        self.events.push(json!({"update": cfgv}));
        self.note();
        let cfg = make_config(cfgv);
        self.ctx.update_engine(&cfg);
    }
    /// a second, independent context composes `text` (on this thread) and is dropped again
    pub fn other(&mut self, cfgv: &Value, text: &str) {
        self.events.push(json!({"other_context": {"config": cfgv, "type": text}}));
        let mut o = RitiContext::new_with_config(&make_config(cfgv));
        for c in text.chars() { let _ = o.get_suggestion_for_key(crate::verif_driver::keycode_of(c), 0, 0); }
        o.finish_input_session();
    }
    pub fn bs(&mut self, ctrl: bool) -> Suggestion {
        self.events.push(json!({"backspace": ctrl}));
        self.note();
        self.ctx.backspace_event(ctrl)
    }
    pub fn commit(&mut self, i: usize) {
        self.events.push(json!({"commit": i}));
        self.note();
        self.ctx.candidate_committed(i)
    }
    pub fn finish(&mut self) {
        self.events.push(json!("finish"));
        self.note();
        self.ctx.finish_input_session()
    }
    fn note(&self) { let h = self.history(); LAST_CALL.with(|l| *l.borrow_mut() = h); }
    pub fn history(&self) -> Value {
        json!({"user_dir": std::env::var("XDG_DATA_HOME").unwrap_or_default(), "keep_files": true, "config": self.cfgv, "events": self.events})
    }
}

pub(crate) fn phon_cfg(extra: Value) -> Value {
    let mut c = json!({"layout": "avro_phonetic", "database_dir": crate::verif_driver::data_dir(), "phonetic_suggestion": true, "smart_quote": false});
    if let Some(m) = extra.as_object() { for (k, v) in m { c[k] = v.clone(); } }
    c
}
pub(crate) fn fixed_cfg(extra: Value) -> Value {
    let mut c = json!({"layout": crate::verif_driver::synthetic_layout(), "database_dir": crate::verif_driver::data_dir(), "smart_quote": false});
    if let Some(m) = extra.as_object() { for (k, v) in m { c[k] = v.clone(); } }
    c
}

/// C02: a returned suggestion is self-consistent and fully retrievable
pub(crate) fn check_sg(s: &Suggestion, composition: Option<&str>) -> Option<String> {
    if s.is_lonely() {
        let _ = s.get_pre_edit_text(0);
        return None;
    }
    let n = s.len();
    if n == 0 { return Some("list suggestion without candidates".into()); }
    if s.previously_selected_index() >= n { return Some(format!("previously selected index {} >= length {}", s.previously_selected_index(), n)); }
    if let Some(c) = composition { if s.get_auxiliary_text() != c { return Some(format!("auxiliary text {:?} != composition {:?}", s.get_auxiliary_text(), c)); } }
    for i in 0..n { let _ = &s.get_suggestions()[i]; let _ = s.get_pre_edit_text(i); }
    None
}

pub(crate) fn texts(s: &Suggestion) -> Vec<String> {
    if s.is_lonely() { vec![s.get_lonely_suggestion().to_string()] } else { s.get_suggestions().to_vec() }
}

mod api {
    use super::*;
    use okkhor::parser::Parser;

    const WORDS: [&str; 18] = ["a", "ami", "amar", "kotha", "sesh", "bow", "cool", "academy", "NGa", "Jhal", "atm", "smile", "up", "x", "o", "bisoy", "kaNGo", "poRa"];

    fn phon_texts(bound: usize) -> Vec<String> {
        // words, words wrapped in punctuation, emoticons, punctuation only, escapes
        let mut v: Vec<String> = Vec::new();
        for w in WORDS.iter().take(if bound >= 2 { 18 } else { 10 }) {
            v.push(w.to_string());
            v.push(format!("\"{}\"", w));
            v.push(format!("({}.", w));
            v.push(format!("{}:", w));
            v.push(format!("'{}?'", w));
        }
        // an emoji name followed by punctuation that spells an emoticon: the whole text is no emoticon, so the name's emoji are offered
        for e in ["cool=)", "(cool;)", "smile:)", "up:-)"] { v.push(e.to_string()); }
        for e in [":)", ";)", "x)", "o=)", ":D", "<3", ":-))", ".", "...", "\"", "`", "`a", "a`", ":e", "\\", "^_^", "$", "a:`", "kothagulo", "seshgulo", "amake", "bisoyshombondhiyoo", "shok,,", ",,k", "(k,,)", "k,", "sad", "poRa", "kotha.\"", "\"kotha..", "'k,,'", ".\"ami\"."] { v.push(e.to_string()); }
        if bound >= 2 {
            // exhaustive: every text of one or two of the 94 typeable characters
            let keys: Vec<char> = (0x21u8..=0x7E).map(|b| b as char).filter(|c| crate::verif_driver::has_key(*c)).collect();
            for a in &keys { v.push(a.to_string()); for b in &keys { v.push(format!("{}{}", a, b)); } }
        }
        v
    }

    fn avro3(p: &Parser, text: &str) -> String {
        let cs: Vec<char> = text.chars().collect();
        let (a, b, c) = split::split_exec(&cs, false);
        format!("{}{}{}", p.convert(&a), p.convert(&b), p.convert(&c))
    }
    fn curl_open(s: &str) -> String { s.chars().map(|c| match c { '\'' => '\u{2018}', '"' => '\u{201C}', c => c }).collect() }
    fn curl_close(s: &str) -> String { s.chars().map(|c| match c { '\'' => '\u{2019}', '"' => '\u{201D}', c => c }).collect() }

    pub(crate) struct Oracle { pub parser: Parser, pub data: crate::data::Data, pub dict: std::collections::HashSet<String>, pub suffixes: std::collections::HashMap<String, String> }
    impl Oracle {
        pub(crate) fn new() -> Self {
            let dict = {
                let t: std::collections::HashMap<String, Vec<String>> = serde_json::from_str(&std::fs::read_to_string(format!("{}/dictionary.json", crate::verif_driver::data_dir())).unwrap()).unwrap();
                t.into_values().flatten().collect()
            };
            let suffixes = serde_json::from_str(&std::fs::read_to_string(format!("{}/suffix.json", crate::verif_driver::data_dir())).unwrap()).unwrap();
            Oracle { parser: Parser::new_phonetic(), data: crate::data::Data::new(&make_config(&phon_cfg(json!({})))), dict, suffixes }
        }
        /// the direct dictionary hits for a typed word
        #[cfg(not(openbangla_riti_verif_internal))]
        pub(crate) fn hits(&self, _w: &str) -> Vec<String> { Vec::new() }
        #[cfg(openbangla_riti_verif_internal)]
        pub(crate) fn hits(&self, w: &str) -> Vec<String> {
            let mut ps = crate::phonetic::VerifPhoneticSuggestion::new(Default::default());
            ps.suggestion_with_dict(&crate::utility::SplittedString::split(w, false), &self.data);
            ps.cache.get(w).map(|v| v.iter().filter(|r| matches!(r, crate::suggestion::Rank::Other(..))).map(|r| r.to_string().to_string()).collect()).unwrap_or_default()
        }
        /// may `cand` be a suffix-built form for the typed word `w` (a dictionary word + a suffix.json text, joining rules undone)?
        pub(crate) fn maybe_suffix_built(&self, w: &str, cand: &str) -> bool {
            (1..w.len()).filter(|i| w.is_char_boundary(*i)).any(|i| match self.suffixes.get(&w[i..]) {
                Some(sfx) => match cand.strip_suffix(sfx.as_str()) {
                    Some(stem) => {
                        let mut cands = vec![stem.to_string()];
                        if let Some(x) = stem.strip_suffix('\u{09DF}') { cands.push(x.to_string()); }
                        if let Some(x) = stem.strip_suffix('\u{09A4}') { cands.push(format!("{}\u{09CE}", x)); }
                        if let Some(x) = stem.strip_suffix('\u{0999}') { cands.push(format!("{}\u{0982}", x)); }
                        cands.iter().any(|c| self.dict.contains(c))
                    }
                    None => false,
                },
                None => false,
            })
        }
        /// C07 ordering clauses that can be decided from the list alone (dictionary membership and edit distance recomputed here)
        pub(crate) fn c07_order(&self, list: &[String], t: &str, smart: bool) -> Vec<String> {
            let mut bad = Vec::new();
            let cs: Vec<char> = t.chars().collect();
            let (p, w, tr) = split::split_exec(&cs, false);
            if w.is_empty() { return bad; }
            let (pa, ta) = (self.parser.convert(&p), self.parser.convert(&tr));
            let (pc, tc) = if smart { (curl_open(&pa), curl_close(&ta)) } else { (pa, ta) };
            let core = |x: &String| -> Option<String> { x.strip_prefix(pc.as_str()).and_then(|y| y.strip_suffix(tc.as_str())).map(|y| y.to_string()) };
            let base = self.parser.convert(&w);
            let emoticon = self.data.get_emoji_by_emoticon(t).map(|e| e.to_string());
            let named: Vec<String> = self.data.get_emoji_by_name(&w).map(|i| i.map(|e| e.to_string()).collect()).unwrap_or_default();
            let is_emoji = |x: &String| Some(x) == emoticon.as_ref() || core(x).map(|c| named.contains(&c)).unwrap_or(false);
            // "dictionary word" = a hit of the dictionary search for the typed word (the search itself is the engine's own, run
            // on a new PhoneticSuggestion; the order is what is checked here)
            let hits = self.hits(&w);
            if hits.contains(&base) {
                if let Some(pos) = list.iter().position(|x| core(x).as_ref() == Some(&base)) {
                    if list.iter().take(pos).any(|x| is_emoji(x)) { bad.push("C07 an emoji never precedes a dictionary word that equals the transliteration".to_string()); }
                }
            }
            let ac = self.data.search_corrected(&w).map(|c| self.parser.convert(c));
            let mut prev = 0usize;
            for (i, x) in list.iter().enumerate() {
                if is_emoji(x) || x == t { continue; }
                let c = match core(x) { Some(c) => c, None => continue };
                if i == 0 && Some(&c) == ac.as_ref() { continue; }
                if !hits.contains(&c) { continue; }
                let d = edit_distance::edit_distance(&base, &c);
                if d < prev { bad.push("C07 dictionary words follow in non-decreasing edit distance from the plain transliteration".to_string()); break; }
                prev = d;
            }
            bad
        }
    }

    /// C02, C03, C07, C16 (phonetic): every text of the corpus, typed key by key, under option combinations
    pub(crate) fn phonetic(bound: usize, shard: usize, nshards: usize) -> Value {
        let mut o = Out::new("phonetic_api", bound, "corpus of words (bare / wrapped in punctuation), emoticons, punctuation-only and escape texts (thorough: + every text of one or two of the 94 typeable characters) x {suggestions, English, smart quote, ANSI}; data-guided: typeable autocorrect.json keys (quick: every 40th) and ZWNJ-spelled dictionary words with the C07 list oracle");
        let parser = Parser::new_phonetic();
        let data = crate::data::Data::new(&make_config(&phon_cfg(json!({}))));
        let dict: std::collections::HashSet<String> = {
            let t: std::collections::HashMap<String, Vec<String>> = serde_json::from_str(&std::fs::read_to_string(format!("{}/dictionary.json", crate::verif_driver::data_dir())).unwrap()).unwrap();
            t.into_values().flatten().collect()
        };
        let suffixes: std::collections::HashMap<String, String> = serde_json::from_str(&std::fs::read_to_string(format!("{}/suffix.json", crate::verif_driver::data_dir())).unwrap()).unwrap();
        let textsv = phon_texts(bound);
        let oracle = Oracle::new();
        let emoji_tables: Value = serde_json::from_str(&std::fs::read_to_string(crate::verif_driver::gen_file("emoji_tables.json")).unwrap_or("{}".into())).unwrap_or(json!({}));
        let mut idx = 0usize;
        for sug in [true, false] { for eng in [false, true] { for smart in [false, true] { for ansi in [false, true] {
            let cfgv = phon_cfg(json!({"phonetic_suggestion": sug, "include_english": eng, "smart_quote": smart, "ansi": ansi}));
            for t in &textsv {
                idx += 1;
                if idx % nshards != shard { continue; }
                o.cases += 1;
                let mut s = Sess::new(cfgv.clone());
                let mut typed = String::new();
                let mut last = None;
                let mut bad = false;
                let mut sel = 0u8;
                for c in t.chars() {
                    typed.push(c);
                    let sg = s.key(c, sel);
                    if !sg.is_lonely() { sel = sg.previously_selected_index() as u8; }
                    if let Some(e) = check_sg(&sg, Some(&typed)) { o.fail(json!({"clause": "C02 ".to_string() + &e, "history": s.history()})); bad = true; break; }
                    last = Some(sg);
                }
                if bad { continue; }
                let sg = last.unwrap();
                let cs: Vec<char> = t.chars().collect();
                let (p, w, tr) = split::split_exec(&cs, false);
                let plain = avro3(&parser, t);
                if !sug {
                    // C03: the single string is avro(leading) + avro(word) + avro(trailing)
                    if !sg.is_lonely() || sg.get_lonely_suggestion() != plain {
                        o.fail(json!({"clause": "C03 suggestions off: result == avro(p)+avro(w)+avro(t)", "history": s.history(), "observed": show(&sg), "expected": plain}));
                    }
                    if ansi && sg.get_pre_edit_text(0) != poriborton::bijoy2000::unicode_to_bijoy(&plain) { o.fail(json!({"clause": "C16 pre-edit == bijoy(candidate)", "history": s.history()})); }
                    continue;
                }
                o.nontrivial += 1;
                let list = texts(&sg);
                let (pa, ta) = (parser.convert(&p), parser.convert(&tr));
                let (pc, tc) = if smart && !w.is_empty() { (curl_open(&pa), curl_close(&ta)) } else { (pa.clone(), ta.clone()) };
                let translit = format!("{}{}{}", pc, parser.convert(&w), tc);
                // C03: the transliteration (modulo curling) is always a candidate
                if !list.contains(&translit) { o.fail(json!({"clause": "C03 transliteration is a candidate", "history": s.history(), "observed": list, "expected": translit})); }
                // C07: no candidate text twice
                for i in 0..list.len() { for j in 0..i { if list[i] == list[j] { o.fail(json!({"clause": "C07 no candidate text occurs twice", "history": s.history(), "observed": list})); } } }
                // the emojicon tables read from the crate's sources (tools/gen_tables.py), not through the engine's look-up functions
                let emoticon = emoji_tables["emoticon_map"][t.as_str()].as_str().map(|e| e.to_string());
                let named: Vec<String> = if emoticon.is_none() { emoji_tables["names_map"][w.as_str()].as_array().map(|a| a.iter().map(|e| format!("{}{}{}", pc, e.as_str().unwrap(), tc)).collect()).unwrap_or_default() } else { vec![] };
                let is_emoji = |x: &String| Some(x) == emoticon.as_ref() || named.contains(x);
                if ansi {
                    // C16: nothing that cannot be encoded
                    if list.iter().any(|x| is_emoji(x) && *x != translit) || (list.contains(t) && *t != translit && t.is_ascii() && t.chars().any(|c| c.is_ascii_alphabetic())) {
                        o.fail(json!({"clause": "C16 ANSI: no emoji / raw English candidate", "history": s.history(), "observed": list}));
                    }
                    for i in 0..list.len() { if sg.get_pre_edit_text(i) != poriborton::bijoy2000::unicode_to_bijoy(&list[i]) { o.fail(json!({"clause": "C16 pre-edit == bijoy(candidate)", "history": s.history()})); } }
                } else {
                    for i in 0..list.len() { if sg.get_pre_edit_text(i) != list[i] { o.fail(json!({"clause": "C16 pre-edit == candidate without ANSI", "history": s.history()})); } }
                    // C18: emoticon / emoji name candidates
                    if let Some(e) = &emoticon {
                        if !list.contains(e) { o.fail(json!({"clause": "C18 emoticon offers its emoji", "history": s.history(), "observed": list, "expected": e})); }
                        if !list.contains(t) { o.fail(json!({"clause": "C18 literal emoticon text stays available", "history": s.history(), "observed": list})); }
                    }
                    let pos: Vec<Option<usize>> = named.iter().map(|e| list.iter().position(|x| x == e)).collect();
                    if pos.iter().any(|p| p.is_none()) || pos.windows(2).any(|w| w[0] >= w[1]) {
                        o.fail(json!({"clause": "C18 emoji name offers all its emoji in table order, wrapped like the word", "history": s.history(), "observed": list, "expected": named}));
                    }
                    // C07: raw English text last
                    if eng && emoticon.is_none() && *t != pc && list.last() != Some(t) && *t != translit {
                        o.fail(json!({"clause": "C07 raw English text is last", "history": s.history(), "observed": list}));
                    }
                }
                // C07: auto-correct entry first; the plain transliteration, unless it is itself a dictionary word, after every dictionary-derived word
                let core = |x: &String| -> Option<String> { x.strip_prefix(pc.as_str()).and_then(|y| y.strip_suffix(tc.as_str())).map(|y| y.to_string()) };
                let base = parser.convert(&w);
                let ac = data.search_corrected(&w).map(|c| parser.convert(c));
                if let Some(a) = &ac {
                    if !w.is_empty() && core(&list[0]).as_ref() != Some(a) { o.fail(json!({"clause": "C07 auto-correct entry is first", "history": s.history(), "observed": list, "expected": a})); }
                }
                // "unless it is itself one of those words": a dictionary word, or a suffix-built word (dictionary word + a
                // suffix.json text, with the three joining rules undone)
                let suffix_built = (1..w.len()).filter(|i| w.is_char_boundary(*i)).any(|i| match suffixes.get(&w[i..]) {
                    Some(sfx) => match base.strip_suffix(sfx.as_str()) {
                        Some(stem) => {
                            let mut cands = vec![stem.to_string()];
                            if let Some(x) = stem.strip_suffix('\u{09DF}') { cands.push(x.to_string()); }
                            if let Some(x) = stem.strip_suffix('\u{09A4}') { cands.push(format!("{}\u{09CE}", x)); }
                            if let Some(x) = stem.strip_suffix('\u{0999}') { cands.push(format!("{}\u{0982}", x)); }
                            cands.iter().any(|c| dict.contains(c))
                        }
                        None => false,
                    },
                    None => false,
                });
                for clause in oracle.c07_order(&list, t, smart) { o.fail(json!({"clause": clause, "history": s.history(), "observed": list})); }
                if !w.is_empty() && ac.as_ref() != Some(&base) && !dict.contains(&base) && !suffix_built {
                    if let Some(pos) = list.iter().position(|x| core(x).as_ref() == Some(&base)) {
                        for x in list.iter().skip(pos + 1) {
                            if is_emoji(x) || x == t { continue; }
                            o.fail(json!({"clause": "C07 the plain transliteration comes after every dictionary word", "history": s.history(), "observed": list}));
                            break;
                        }
                    }
                }
                o.sample(json!({"text": t, "list": list}));
            }
        }}}}
        // long compositions (80 keys without an end of word): every key is kept -- the auxiliary text is the raw typed text after every
        // key and after every backspace (C02), whatever the length
        if shard == 0 {
            for sugg in [true, false] { for w in ["ka".repeat(40), "kotha".repeat(16), "a1".repeat(40)] {
                o.cases += 1;
                let mut s = Sess::new(phon_cfg(json!({"phonetic_suggestion": sugg})));
                let mut typed = String::new();
                let mut bad = false;
                for c in w.chars() {
                    typed.push(c);
                    let sg = s.key(c, 0);
                    if let Some(e) = check_sg(&sg, Some(&typed)) { o.fail(json!({"clause": format!("C02 {} (long composition)", e), "history": {"config": s.cfgv, "events": [{"type": typed}]}})); bad = true; break; }
                }
                if bad { continue; }
                for _ in 0..5 {
                    typed.pop();
                    let sg = s.bs(false);
                    if let Some(e) = check_sg(&sg, Some(&typed)) { o.fail(json!({"clause": format!("C02 {} (long composition, backspace)", e), "history": {"config": s.cfgv, "events": [{"type": w}, {"backspaces": 5}]}})); break; }
                }
                o.nontrivial += 1;
            } }
        }
        // data-guided corpus: every typeable key of autocorrect.json (quick: every 40th) plus words whose dictionary hits
        // are spelled with a ZWNJ, typed key by key with suggestions on: C02 per key, the C07 list oracle at the end
        {
            let ac: std::collections::BTreeMap<String, String> = serde_json::from_str(&std::fs::read_to_string(format!("{}/autocorrect.json", crate::verif_driver::data_dir())).unwrap()).unwrap();
            let mut words: Vec<String> = ac.keys().filter(|k| k.len() <= 14 && k.chars().all(|c| crate::verif_driver::has_key(c))).cloned().collect();
            let step = if bound >= 2 { 1 } else { 40 };
            words = words.into_iter().step_by(step).collect();
            for w in ["inshaallah", "insaallah", "bismillah", "allah", "shah", "rik", "hissa"] { words.push(w.to_string()); }
            let cfgv = phon_cfg(json!({"phonetic_suggestion": true, "include_english": false, "smart_quote": false, "ansi": false}));
            for (k, w) in words.iter().enumerate() {
                if k % nshards != shard { continue; }
                o.cases += 1;
                let mut s = Sess::new(cfgv.clone());
                let mut typed = String::new();
                let mut last = None;
                let mut sel = 0u8;
                let mut bad = false;
                for c in w.chars() {
                    typed.push(c);
                    let sg = s.key(c, sel);
                    if !sg.is_lonely() { sel = sg.previously_selected_index() as u8; }
                    if let Some(e) = check_sg(&sg, Some(&typed)) { o.fail(json!({"clause": "C02 ".to_string() + &e, "history": s.history()})); bad = true; break; }
                    last = Some(sg);
                }
                if bad { continue; }
                let list = texts(&last.unwrap());
                for clause in oracle.c07_order(&list, w, false) { o.fail(json!({"clause": clause, "history": s.history(), "observed": list})); }
                for i in 0..list.len() { for j in 0..i { if list[i] == list[j] { o.fail(json!({"clause": "C07 no candidate text occurs twice", "history": s.history(), "observed": list})); } } }
                o.nontrivial += 1;
            }
        }
        o.done()
    }

    /// C02, C06, C15, C16 (fixed): keys of the synthetic layout
    pub(crate) fn fixed(bound: usize, shard: usize, nshards: usize) -> Value {
        let mut o = Out::new("fixed_api", bound, "key texts over the synthetic layout (words, wrapped words, fused keys) x {traditional kar, smart quote, English, ANSI}; per step C02, at the end C15/C16, then terminating events vs a fresh context (C06)");
        let data = crate::data::Data::new(&make_config(&fixed_cfg(json!({}))));
        // keys of data/synthetic_layout.json: t=ক w=্ i=ত p=া o=ঁ e=ি d=ে c=ু u=র a=আ s=য v=ই x=। m=ো b=.
        let words = ["t", "tp", "api", "tc", "utc", "twi", "ap", "tpt", "\"tp\"", "(ap)", "tpx", "we", "dtp", "tcx", "apitpu", "'tcu'", "tw", "apiw", "tptw", "sw", "apsw",
                     // punctuation that is special in a regular expression INSIDE the word (b = full stop, ? + ( ^ from their own keys)
                     "tbp", "tpbu", "t?p", "t+p", "t(p", "tp^u", "btp",
                     // a quotation mark that other punctuation separates from the word is curled like one next to it
                     "tp!\"", "\"(tp)\"", "tpx'", "'(\"tp\")'"];
        let mut idx = 0usize;
        for trad in [false, true] { for smart in [false, true] { for eng in [false, true] { for ansi in [false, true] {
            let cfgv = fixed_cfg(json!({"fixed_suggestion": true, "fixed_kar": trad, "smart_quote": smart, "include_english": eng, "ansi": ansi, "fixed_vowel": true}));
            for w in words.iter() {
                idx += 1;
                if idx % nshards != shard { continue; }
                o.cases += 1;
                let mut s = Sess::new(cfgv.clone());
                // the composition itself: the same keys in a context with list suggestions off (which returns the buffer)
                let mut plain = Sess::new({ let mut c = cfgv.clone(); c["fixed_suggestion"] = json!(false); c });
                let mut last = None;
                let mut bad = false;
                for c in w.chars() {
                    let sg = s.key(c, 0);
                    let comp = plain.key(c, 0);
                    let comp_text = if comp.is_empty() { String::new() } else { comp.get_lonely_suggestion().to_string() };
                    if let Some(e) = check_sg(&sg, if sg.is_empty() { None } else { Some(&comp_text) }) { o.fail(json!({"clause": "C02 ".to_string() + &e, "history": s.history()})); bad = true; break; }
                    last = Some(sg);
                }
                if bad { continue; }
                let sg = last.unwrap();
                if sg.is_lonely() { o.fail(json!({"clause": "C15 list-style suggestion with suggestions on", "history": s.history()})); continue; }
                let list = texts(&sg);
                let composed = sg.get_auxiliary_text().to_string();
                let cs: Vec<char> = composed.chars().collect();
                let (p, word, tr) = split::split_exec(&cs, true);
                let (pc, tc) = if smart && !word.is_empty() { (curl_open(&p), curl_close(&tr)) } else { (p.clone(), tr.clone()) };
                o.nontrivial += 1;
                // C15: first candidate is the composed text itself (curled)
                let first = format!("{}{}{}", pc, word, tc);
                if list[0] != first { o.fail(json!({"clause": "C15 first candidate is the composed text (curled)", "history": s.history(), "observed": list, "expected": first})); }
                if list.len() > 9 { o.fail(json!({"clause": "C15 at most nine candidates", "history": s.history(), "observed": list})); }
                for i in 0..list.len() { for j in 0..i { if list[i] == list[j] { o.fail(json!({"clause": "C15 no candidate repeats", "history": s.history(), "observed": list})); } } }
                let emojis: Vec<String> = data.get_emoji_by_bengali(&word).map(|i| i.map(|e| format!("{}{}{}", pc, e, tc)).collect()).unwrap_or_default();
                let english = if eng && !ansi && composed != *w { Some(w.to_string()) } else { None };
                if let Some(e) = &english { if list.last() != Some(e) { o.fail(json!({"clause": "C15 raw key text is the last candidate", "history": s.history(), "observed": list})); } }
                let clean = |x: &str| -> String { x.chars().filter(|c| !"|()[]{}^$*+?.~!@#%&-_='\";<>/\\,:`।\u{200C}\u{2018}\u{2019}\u{201C}\u{201D}".contains(*c)).collect() };
                let mut prev = 0usize;
                for (i, x) in list.iter().enumerate() {
                    if emojis.contains(x) || Some(x) == english.as_ref() { if ansi && emojis.contains(x) { o.fail(json!({"clause": "C16 ANSI: no emoji candidate", "history": s.history(), "observed": list})); } continue; }
                    let core = x.strip_prefix(pc.as_str()).and_then(|y| y.strip_suffix(tc.as_str())).unwrap_or(x).to_string();
                    if i > 0 && !clean(&core).starts_with(&clean(&word)) { o.fail(json!({"clause": "C15 candidates are prefix completions of the typed word", "history": s.history(), "observed": list})); }
                    // C15: non-decreasing edit distance from the typed word
                    let d = edit_distance::edit_distance(&word, &core);
                    if d < prev { o.fail(json!({"clause": "C15 non-emoji candidates in non-decreasing edit distance", "history": s.history(), "observed": list, "distances": [prev, d]})); }
                    prev = d;
                }
                if ansi && (list.iter().any(|x| x.is_ascii() && x.chars().any(|c| c.is_ascii_alphabetic()))) { o.fail(json!({"clause": "C16 ANSI: no raw English candidate", "history": s.history(), "observed": list})); }
                for i in 0..list.len() {
                    let exp = if ansi { poriborton::bijoy2000::unicode_to_bijoy(&list[i]) } else { list[i].clone() };
                    if sg.get_pre_edit_text(i) != exp { o.fail(json!({"clause": "C16 pre-edit text", "history": s.history()})); }
                }
                o.sample(json!({"keys": w, "list": list}));
            }
        }}}}
        // a word typed with more keys than it has code points (ে ক া -> কো; hasanta + hasanta), erased with plain backspaces: nothing of
        // its raw keys is left, so an emoticon typed next offers its emoji (C18) and the raw-key candidate is the new keys only (C06, C15)
        if shard == 0 {
            for (cfgx, word) in [(json!({"fixed_suggestion": true, "fixed_kar_order": true, "include_english": true, "fixed_vowel": true}), "dtp"),
                                 (json!({"fixed_suggestion": true, "include_english": true, "fixed_vowel": true}), "twwt")] {
                o.cases += 1;
                let cfgv = fixed_cfg(cfgx);
                let mut s = Sess::new(cfgv.clone());
                let _ = s.typ(word);
                let mut n = 0;
                while s.ctx.ongoing_input_session() && n < 10 { let _ = s.bs(false); n += 1; }
                let sg = s.typ(";)").unwrap();
                let mut fresh = Sess::new(cfgv.clone());
                let want = fresh.typ(";)").unwrap();
                if show(&sg) != show(&want) {
                    o.fail(json!({"clause": "C06 C18 C15 after a word is erased with backspaces an emoticon typed next is answered as in a new context (its emoji offered, raw keys = the new keys only)", "history": s.history(), "observed": show(&sg), "expected": show(&want)}));
                }
                o.nontrivial += 1;
            }
        }
        // keys that emit nothing, pressed while idle -- a key-pad key the layout leaves unassigned ("Num2": ""), key-pad Enter, a
        // key-pad digit with the key pad option off: an empty suggestion, no session, and the next word is answered as in a new
        // context (no raw key of theirs in the English candidate / the emoticon look-up) (C06, C15, C18)
        if shard == 0 {
            for numpad in [true, false] {
                let cfgv = fixed_cfg(json!({"fixed_suggestion": true, "include_english": true, "fixed_vowel": true, "fixed_numpad": numpad}));
                for next in ["tp", ";)", "api"] {
                    o.cases += 1;
                    let mut s = Sess::new(cfgv.clone());
                    let mut bad = false;
                    // VC_KP_2 (unassigned in the synthetic layout), VC_KP_ENTER
                    for code in [0x0050u16, 0x0E1C] {
                        let e = s.code_mod(code, 0, 0);
                        if !e.is_empty() || s.ctx.ongoing_input_session() { o.fail(json!({"clause": "C06 a key that emits nothing, pressed while idle, returns an empty suggestion and starts no session", "history": s.history(), "observed": show(&e)})); bad = true; break; }
                        let b = s.bs(false);
                        if !b.is_empty() { o.fail(json!({"clause": "C06 a backspace when idle returns an empty suggestion", "history": s.history(), "observed": show(&b)})); bad = true; break; }
                    }
                    if bad { continue; }
                    let sg = s.typ(next).unwrap();
                    let mut fresh = Sess::new(cfgv.clone());
                    let want = fresh.typ(next).unwrap();
                    if show(&sg) != show(&want) {
                        o.fail(json!({"clause": "C06 C15 C18 after keys that emit nothing (pressed while idle) the next word is answered as in a new context", "history": s.history(), "observed": show(&sg), "expected": show(&want)}));
                    }
                    o.nontrivial += 1;
                }
            }
        }
        // old vowel-sign order with list suggestions on: after EVERY key the first candidate and the auxiliary text are the text
        // composed so far (same keys in a context with list suggestions off), also when a key rewrites a sign in place (ে + া -> ো)
        if shard == 0 {
            for eng in [false, true] {
                let cfgv = fixed_cfg(json!({"fixed_suggestion": true, "fixed_kar_order": true, "include_english": eng, "fixed_vowel": true}));
                for w in ["dtp", "dtg", "dth", "etp", "dtwtp", "ftu", "dtpu", "tde", "twe", "dtpx"] {
                    o.cases += 1;
                    let mut s = Sess::new(cfgv.clone());
                    let mut plain = Sess::new({ let mut c = cfgv.clone(); c["fixed_suggestion"] = json!(false); c });
                    for c in w.chars() {
                        let sg = s.key(c, 0);
                        let comp = plain.key(c, 0);
                        let comp_text = if comp.is_empty() { String::new() } else { comp.get_lonely_suggestion().to_string() };
                        // a sign that is only waiting: nothing composed yet (the list-style answer then holds the empty text)
                        if sg.is_empty() || comp.is_empty() { continue; }
                        if sg.is_lonely() { o.fail(json!({"clause": "C15 list-style suggestion with suggestions on", "history": s.history()})); break; }
                        let list = texts(&sg);
                        if sg.get_auxiliary_text() != comp_text || list.first() != Some(&comp_text) {
                            o.fail(json!({"clause": "C14 C15 C02 the first candidate and the auxiliary text are the text composed by this key (old vowel-sign order, list suggestions on)", "history": s.history(), "observed": {"auxiliary": sg.get_auxiliary_text(), "list": list}, "expected": comp_text}));
                            break;
                        }
                        if eng && list.last().map(|x| x.as_str()) != Some(&w[..s.events.len()]) && comp_text != w[..s.events.len()] {
                            o.fail(json!({"clause": "C15 raw key text is the last candidate (old vowel-sign order)", "history": s.history(), "observed": list}));
                            break;
                        }
                    }
                    o.nontrivial += 1;
                }
            }
        }
        o.done()
    }

    fn same(a: &Suggestion, b: &Suggestion) -> bool {
        a.is_lonely() == b.is_lonely() && texts(a) == texts(b) && (a.is_lonely() || a.previously_selected_index() == b.previously_selected_index())
    }

    /// C05: the suggestion for a text does not depend on how the text was reached
    pub(crate) fn history_independence(bound: usize) -> Value {
        let mut o = Out::new("history_independence", bound, "target texts x {typed directly in a fresh context; after other words; via detours with backspace; in a context that has memoised > 1100 prefixes (thorough)}");
        let targets = ["kothagulo", "asgulo", "\"amar\"", "seshta", "(bisoyer)", "hellogulo", "amake:", "kotha", "`a", "ami."];
        for eng in [false, true] {
            let cfgv = phon_cfg(json!({"include_english": eng, "smart_quote": eng}));
            // a long-lived context
            let mut warm = Sess::new(cfgv.clone());
            let filler = if bound >= 2 { 420 } else { 40 };
            let cons = ['k', 'g', 'c', 'j', 't', 'd', 'n', 'p', 'b', 'm', 'r', 'l', 's', 'h', 'z'];
            for i in 0..filler {
                let w = format!("{}{}{}o", cons[i % 15], ['a', 'i', 'u', 'e', 'o'][(i / 15) % 5], cons[(i / 75) % 15]);
                warm.typ(&w); warm.finish();
            }
            for t in targets.iter() {
                o.cases += 1;
                let mut fresh = Sess::new(cfgv.clone());
                let a = fresh.typ(t).unwrap();
                // (1) warm context, directly
                let b = warm.typ(t).unwrap(); warm.finish();
                if !same(&a, &b) { o.fail(json!({"clause": "C05 warm context == fresh context", "text": t, "history": {"note": "long-lived context after many filler words", "config": cfgv, "filler_words": filler}, "observed": show(&b), "expected": show(&a)})); }
                // (2) detour: type an extra character at every position then backspace it
                let mut det = Sess::new(cfgv.clone());
                let mut last = None;
                let mut sel = 0u8;
                for c in t.chars() {
                    let _ = det.key('x', 0);
                    let after_bs = det.bs(false);
                    // a published key that types nothing (key pad Enter) leaves the composition as it is: the suggestion it returns is
                    // the one of the surviving text -- after a backspace as well as after a key (C03, C05, C02)
                    let noop = det.code_mod(0x0E1C, 0, sel);
                    if texts(&noop) != texts(&after_bs) || (!noop.is_lonely() && !after_bs.is_lonely() && noop.get_auxiliary_text() != after_bs.get_auxiliary_text()) {
                        o.fail(json!({"clause": "C03 C05 C02 a key that types nothing returns the suggestion of the surviving text (after a backspace)", "history": det.history(), "observed": show(&noop), "expected": show(&after_bs)}));
                    }
                    let s1 = det.key(c, sel);
                    let noop = det.code_mod(0x0E1C, 0, sel);
                    if texts(&noop) != texts(&s1) || (!noop.is_lonely() && !s1.is_lonely() && noop.get_auxiliary_text() != s1.get_auxiliary_text()) {
                        o.fail(json!({"clause": "C03 C05 C02 a key that types nothing returns the suggestion of the surviving text (after a key)", "history": det.history(), "observed": show(&noop), "expected": show(&s1)}));
                    }
                    if !s1.is_lonely() { sel = s1.previously_selected_index() as u8; }
                    last = Some(s1);
                }
                // the last key must carry the same selection byte as in the fresh run for the comparison to be fair
                let c = last.unwrap();
                if texts(&a) != texts(&c) { o.fail(json!({"clause": "C05 detours with backspace do not change the list", "history": det.history(), "observed": show(&c), "expected": show(&a)})); }
                // (3) other words first, same context
                let mut other = Sess::new(cfgv.clone());
                other.typ("gulo"); other.finish(); other.typ("ta"); other.bs(true); other.typ("er"); other.finish();
                let d = other.typ(t).unwrap();
                if !same(&a, &d) { o.fail(json!({"clause": "C05 earlier words do not change the suggestion", "history": other.history(), "observed": show(&d), "expected": show(&a)})); }
                o.nontrivial += 1;
                o.sample(json!({"text": t, "list": texts(&a)}));
            }
        }
        // (4) a word typed after a differently cased spelling of it, and (5) while a second context with another data
        //     directory (none at all) composes the same words on the same thread
        let oracle = Oracle::new();
        let cfgv = phon_cfg(json!({}));
        let nodb = { let mut c = cfgv.clone(); c.as_object_mut().unwrap().remove("database_dir"); c };
        for (w1, w2) in [("poRa", "pora"), ("saD", "sad"), ("hoT", "hot"), ("hot", "hoT"), ("moN", "mon"), ("Kothagulo", "kothagulo")] {
            o.cases += 1;
            let mut fresh = Sess::new(cfgv.clone());
            let a = fresh.typ(w2).unwrap();
            let mut s = Sess::new(cfgv.clone());
            let _ = s.typ(w1); s.finish();
            let b = s.typ(w2).unwrap();
            if !same(&a, &b) {
                o.fail(json!({"clause": "C05 earlier words do not change the suggestion (differently cased spelling typed before)", "history": s.history(), "observed": show(&b), "expected": show(&a)}));
                for clause in oracle.c07_order(&texts(&b), w2, false) { o.fail(json!({"clause": clause, "history": s.history(), "observed": texts(&b)})); }
            }
            o.nontrivial += 1;
        }
        // every run on a thread of its own, so that thread-local state cannot carry the reference into the scenario
        fn on_thread<T: Send + 'static>(f: impl FnOnce() -> T + Send + 'static) -> T { std::thread::spawn(f).join().unwrap() }
        for t in ["cool", "kothagulo", "amar"] {
            o.cases += 1;
            let (c1, c2, t1) = (cfgv.clone(), nodb.clone(), t.to_string());
            let a = on_thread(move || { let mut fresh = Sess::new(c1); show(&fresh.typ(&t1).unwrap()) });
            let (c1, t1) = (nodb.clone(), t.to_string());
            let a2 = on_thread(move || { let mut fresh = Sess::new(c1); show(&fresh.typ(&t1).unwrap()) });
            // the other context (no data directory) first
            let (c1, c2b, t1) = (cfgv.clone(), c2.clone(), t.to_string());
            let (b, h) = on_thread(move || { let mut s = Sess::new(c1); s.other(&c2b, &t1); let b = show(&s.typ(&t1).unwrap()); (b, s.history()) });
            if a != b { o.fail(json!({"clause": "C05 other contexts used in the same process do not change the suggestion", "history": h, "observed": b, "expected": a})); }
            // the other context in between, key by key
            let (c1, c2b, t1) = (cfgv.clone(), c2.clone(), t.to_string());
            let (c, h) = on_thread(move || {
                let mut s2 = Sess::new(c1);
                let mut last = None;
                for (i, ch) in t1.chars().enumerate() { s2.other(&c2b, &t1[..i + 1]); last = Some(s2.key(ch, 0)); }
                (show(&last.unwrap()), s2.history())
            });
            if a["list"] != c["list"] { o.fail(json!({"clause": "C05 other contexts used in the same process do not change the suggestion", "history": h, "observed": c, "expected": a})); }
            // and the reverse direction: a context without a data directory after one with the dictionary
            let (c1, c2b, t1) = (cfgv.clone(), c2.clone(), t.to_string());
            let (b2, h) = on_thread(move || { let mut s3 = Sess::new(c2b); s3.other(&c1, &t1); let b = show(&s3.typ(&t1).unwrap()); (b, s3.history()) });
            if a2 != b2 { o.fail(json!({"clause": "C05 other contexts used in the same process do not change the suggestion", "history": h, "observed": b2, "expected": a2})); }
            o.nontrivial += 1;
        }
        o.done()
    }

    /// C09: a learned choice is preselected again, in the same context and after a restart
    pub(crate) fn learn_recall(_bound: usize) -> Value {
        let mut o = Out::new("learn_recall", 1, "words x candidate index 1..3 x {same context, new context}; re-teaching; suffixed forms; wrapped in quotes (smart quotes on)");
        for smart in [false, true] {
            let cfgv = phon_cfg(json!({"smart_quote": smart}));
            crate::verif_driver::reset_user_files();
            for (w, suffixed) in [("sesh", "seshgulo"), ("kotha", "kothar"), ("\"e\"", ""), ("a", ""), ("o", "")] {
                for round in 0..2 {
                    o.cases += 1;
                    let mut s = Sess::new(cfgv.clone());
                    let sg = s.typ(w).unwrap();
                    if sg.is_lonely() || sg.len() < 2 { continue; }
                    // pick a candidate other than the preselected one
                    let want = (sg.previously_selected_index() + 1 + round) % sg.len();
                    let text = sg.get_suggestions()[want].clone();
                    s.commit(want);
                    let again = s.typ(w).unwrap(); s.finish();
                    if again.get_suggestions().get(again.previously_selected_index()) != Some(&text) {
                        o.fail(json!({"clause": "C09 learned choice preselected in the same context", "history": s.history(), "observed": show(&again), "expected": text}));
                    }
                    // reached through a longer text and a backspace: the same preselection (C05: only the surviving text counts)
                    {
                        let mut detour = Sess::new(cfgv.clone());
                        let inner: String = if w.ends_with('"') { w[..w.len() - 1].to_string() } else { w.to_string() };
                        let _ = detour.typ(&format!("{}x", inner));
                        let mut b = detour.bs(false);
                        if w.ends_with('"') { b = detour.key('"', b.previously_selected_index() as u8); }
                        if b.is_lonely() || b.get_suggestions().get(b.previously_selected_index()) != Some(&text) {
                            o.fail(json!({"clause": "C05 C09 the learned choice is preselected also when the text is reached with a backspace (the preselected index depends on the surviving text only)", "history": detour.history(), "observed": show(&b), "expected": text}));
                        }
                        detour.finish();
                    }
                    let mut fresh = Sess::new(cfgv.clone());
                    let a2 = fresh.typ(w).unwrap(); fresh.finish();
                    if a2.get_suggestions().get(a2.previously_selected_index()) != Some(&text) {
                        o.fail(json!({"clause": "C09 learned choice preselected after a restart", "history": {"first_context": s.history(), "new_context": fresh.history()}, "observed": show(&a2), "expected": text}));
                    }
                    // the store on disk is a JSON object of strings
                    if let Some(txt) = crate::verif_driver::read_user_file("phonetic-candidate-selection.json") {
                        let ok = serde_json::from_str::<std::collections::HashMap<String, String>>(&txt).is_ok();
                        if !ok { o.fail(json!({"clause": "C09 store is a JSON object of strings", "history": s.history(), "observed": txt})); }
                    }
                    if !suffixed.is_empty() && round == 0 {
                        // the suffixed form typed for the first time behind punctuation, then again bare and wrapped
                        let want = { let mut probe = Sess::new(cfgv.clone()); let a = probe.typ(suffixed).unwrap(); a.get_suggestions()[a.previously_selected_index()].clone() };
                        crate::verif_driver::remove_key_from_store(suffixed);
                        let mut s2 = Sess::new(cfgv.clone());
                        let _ = s2.typ(&format!("({}", suffixed)); s2.finish();
                        for form in [suffixed.to_string(), format!("{}.", suffixed), format!("({})", suffixed)] {
                            let a = s2.typ(&form).unwrap(); s2.finish();
                            let sel = a.get_suggestions()[a.previously_selected_index()].clone();
                            if !sel.contains(want.as_str()) { o.fail(json!({"clause": "C05 C09 suffixed form of a learned word stays preselected after it was first typed behind punctuation (the preselected index does not depend on what was typed before)", "history": s2.history(), "observed": sel, "expected_core": want})); break; }
                        }
                    }
                    if !suffixed.is_empty() {
                        let a3 = fresh.typ(suffixed).unwrap(); fresh.finish();
                        let sel = a3.get_suggestions()[a3.previously_selected_index()].clone();
                        let stem: String = text.chars().take(text.chars().count().saturating_sub(1)).collect();
                        if a3.get_suggestions().iter().any(|x| x.starts_with(&stem) && x != &text) && !sel.starts_with(&stem) {
                            o.fail(json!({"clause": "C09 suffixed form of a learned word is preselected", "history": fresh.history(), "observed": show(&a3), "expected_prefix": stem}));
                        }
                    }
                    o.nontrivial += 1;
                    o.sample(json!({"word": w, "learned": text}));
                }
            }
        }
        // re-teaching a word leaves the learned choices of other texts alone, also of texts that begin with it (din / diner, am / amar)
        {
            let cfgv = phon_cfg(json!({}));
            for (w, longer) in [("din", "diner"), ("am", "amar"), ("kor", "kora")] {
                o.cases += 1;
                crate::verif_driver::reset_user_files();
                let mut s = Sess::new(cfgv.clone());
                let pick = |s: &mut Sess, t: &str, skip: usize| -> Option<String> {
                    let sg = s.typ(t).unwrap();
                    if sg.is_lonely() || sg.len() < 2 + skip { s.finish(); return None; }
                    let i = (sg.previously_selected_index() + 1 + skip) % sg.len();
                    let text = sg.get_suggestions()[i].clone();
                    s.commit(i);
                    Some(text)
                };
                if pick(&mut s, w, 0).is_none() { continue; }
                let learned_longer = match pick(&mut s, longer, 0) { Some(t) => t, None => continue };
                if pick(&mut s, w, 0).is_none() { continue; }       // re-teach w with another candidate
                let a = s.typ(longer).unwrap(); s.finish();
                if a.get_suggestions().get(a.previously_selected_index()) != Some(&learned_longer) {
                    o.fail(json!({"clause": "C09 a learned choice stays preselected when another word (a prefix of it) is re-taught", "history": s.history(), "observed": show(&a), "expected": learned_longer}));
                }
                let mut fresh = Sess::new(cfgv.clone());
                let b = fresh.typ(longer).unwrap(); fresh.finish();
                if b.get_suggestions().get(b.previously_selected_index()) != Some(&learned_longer) {
                    o.fail(json!({"clause": "C09 a learned choice is preselected after a restart although a prefix of the word was re-taught meanwhile", "history": {"first_context": s.history(), "new_context": fresh.history()}, "observed": show(&b), "expected": learned_longer}));
                }
                o.nontrivial += 1;
            }
        }
        // re-teaching with a SHORTER text: the file written for the longer choice is replaced as a whole (no stale tail), the store
        // on disk is at all times a JSON object of strings equal to what was learned, and a new context recalls the last choice
        {
            let cfgv = phon_cfg(json!({}));
            crate::verif_driver::reset_user_files();
            let mut expected: std::collections::BTreeMap<String, String> = Default::default();
            for w in ["as", "kotha", "sesh", "amar"] {
                o.cases += 1;
                let mut s = Sess::new(cfgv.clone());
                let sg = s.typ(w).unwrap();
                if sg.is_lonely() || sg.len() < 3 { continue; }
                let pre = sg.previously_selected_index();
                let mut order: Vec<usize> = (0..sg.len()).filter(|i| *i != pre).collect();
                order.sort_by_key(|i| std::cmp::Reverse(sg.get_suggestions()[*i].len()));
                let (long, short) = (order[0], *order.last().unwrap());
                let (long_t, short_t) = (sg.get_suggestions()[long].clone(), sg.get_suggestions()[short].clone());
                if long_t.len() <= short_t.len() { continue; }
                s.commit(long);
                let sg2 = s.typ(w).unwrap();
                let idx = match sg2.get_suggestions().iter().position(|x| *x == short_t) { Some(i) => i, None => continue };
                s.commit(idx);
                expected.insert(w.to_string(), short_t.clone());
                let txt = crate::verif_driver::read_user_file("phonetic-candidate-selection.json").unwrap_or_default();
                match serde_json::from_str::<std::collections::BTreeMap<String, String>>(&txt) {
                    Ok(m) => if m != expected { o.fail(json!({"clause": "C09 the on-disk store holds exactly the learned choices", "history": s.history(), "observed": txt, "expected": expected})); },
                    Err(_) => o.fail(json!({"clause": "C09 the on-disk store is at all times a JSON object of strings that a new context can load (re-taught with a shorter text)", "history": s.history(), "observed": txt, "expected": expected})),
                }
                let mut fresh = Sess::new(cfgv.clone());
                let a = fresh.typ(w).unwrap(); fresh.finish();
                if a.get_suggestions().get(a.previously_selected_index()) != Some(&short_t) {
                    o.fail(json!({"clause": "C09 learned choice preselected after a restart (re-taught with a shorter text)", "history": {"first_context": s.history(), "new_context": fresh.history()}, "observed": show(&a), "expected": short_t}));
                }
                o.nontrivial += 1;
            }
        }
        // the list the host commits from is the one of the MOST RECENT event, also when that event was a backspace that made the list
        // longer than the one of the last key ("seshh" has fewer candidates than "sesh"): committing its last row is learned (C09)
        for (long, n_bs) in [("seshh", 1usize), ("(onnoy", 1), ("kothax", 1)] {
            o.cases += 1;
            crate::verif_driver::reset_user_files();
            let cfgv = phon_cfg(json!({}));
            let mut s = Sess::new(cfgv.clone());
            let before = s.typ(long).unwrap();
            let mut b = s.bs(false);
            for _ in 1..n_bs { b = s.bs(false); }
            if b.is_lonely() || b.len() < 2 { s.finish(); continue; }
            let last = b.len() - 1;
            let text = b.get_suggestions()[last].clone();
            let longer = before.is_lonely() || b.len() > before.len();
            s.commit(last);
            let short: String = long.chars().take(long.chars().count() - n_bs).collect();
            let again = s.typ(&short).unwrap(); s.finish();
            if again.get_suggestions().get(again.previously_selected_index()) != Some(&text) {
                o.fail(json!({"clause": "C09 a candidate committed from the list a backspace returned is learned (same context)", "history": s.history(), "observed": show(&again), "expected": text, "list_got_longer": longer}));
            }
            let mut fresh = Sess::new(cfgv.clone());
            let a = fresh.typ(&short).unwrap(); fresh.finish();
            if a.get_suggestions().get(a.previously_selected_index()) != Some(&text) {
                o.fail(json!({"clause": "C09 a candidate committed from the list a backspace returned is learned (after a restart)", "history": {"first_context": s.history(), "new_context": fresh.history()}, "observed": show(&a), "expected": text, "list_got_longer": longer}));
            }
            o.nontrivial += 1;
        }
        crate::verif_driver::reset_user_files();
        o.done()
    }

    /// C10: whatever the state of the user files, the keyboard keeps working and behaves as if they were absent
    pub(crate) fn user_files(bound: usize) -> Value {
        let mut o = Out::new("user_files", bound, "every byte prefix of a store the engine wrote and of a user auto-correct list, malformed / wrong-shape / empty-string documents, missing directory; then a typing + commit + reload session");
        let cfgv = phon_cfg(json!({}));
        crate::verif_driver::reset_user_files();
        // let the engine write its own store (with Bengali text in it)
        { let mut s = Sess::new(cfgv.clone()); let sg = s.typ("sesh").unwrap(); if !sg.is_lonely() && sg.len() > 1 { s.commit(1); } let sg = s.typ("kotha").unwrap(); if !sg.is_lonely() && sg.len() > 1 { s.commit(1); } }
        let store = std::fs::read(crate::verif_driver::user_file_path("phonetic-candidate-selection.json")).unwrap_or_default();
        let ac = "{\"zzq\":\"kotha\",\"hello\":\"\u{09B8}\u{09BE}\u{09B2}\u{09BE}\u{09AE}\",\"e\":\"\"}".as_bytes().to_vec();
        let mut docs: Vec<(&str, Vec<u8>)> = Vec::new();
        let step = if bound >= 2 { 1 } else { 3 };
        for n in (0..=store.len()).step_by(step) { docs.push(("phonetic-candidate-selection.json", store[..n].to_vec())); }
        for n in (0..=ac.len()).step_by(step) { docs.push(("autocorrect.json", ac[..n].to_vec())); }
        for d in ["{\"hello\":\"\u{09B8}\u{09BE}\u{09B2}\u{09BE}\u{09AE}\"}", "{\"hello\":\"sa\u{09B2}am\"}", "[1,2]", "{\"a\":1}", "null", "{\"a\":\"\",\"\":\"\"}", "{\":\":\"\"}", "\u{FEFF}{}", "{\"a\":{\"b\":\"c\"}}"] {
            docs.push(("phonetic-candidate-selection.json", d.as_bytes().to_vec()));
            docs.push(("autocorrect.json", d.as_bytes().to_vec()));
        }
        // other encodings of a JSON document: UTF-8 with a byte order mark, UTF-16 LE / BE with a byte order mark, cut at every byte
        // (odd lengths included) -- content the parser cannot read is content that is not there
        {
            let doc = "{\"ami\":\"ammi\"}";
            let le: Vec<u8> = [0xFFu8, 0xFE].iter().cloned().chain(doc.encode_utf16().flat_map(|u| u.to_le_bytes())).collect();
            let be: Vec<u8> = [0xFEu8, 0xFF].iter().cloned().chain(doc.encode_utf16().flat_map(|u| u.to_be_bytes())).collect();
            let u8bom: Vec<u8> = [0xEFu8, 0xBB, 0xBF].iter().cloned().chain(doc.bytes()).collect();
            for enc in [&le, &be, &u8bom] {
                for n in (0..=enc.len()).rev().take(if bound >= 2 { 1000 } else { 8 }) {
                    docs.push(("autocorrect.json", enc[..n].to_vec()));
                    if n % 5 == 0 { docs.push(("phonetic-candidate-selection.json", enc[..n].to_vec())); }
                }
            }
        }
        crate::verif_driver::reset_user_files();
        let reference = { let mut s = Sess::new(cfgv.clone()); texts(&s.typ("ami").unwrap()) };
        for (name, content) in docs {
            o.cases += 1;
            crate::verif_driver::reset_user_files();
            std::fs::write(crate::verif_driver::user_file_path(name), &content).unwrap();
            let hist = json!({"config": cfgv, "file": name, "content_lossy": String::from_utf8_lossy(&content), "content_bytes": content, "events": "create context; type ami; type :e, zzqe, ae; commit 0; update_engine; type ami"});
            let r = std::panic::catch_unwind(std::panic::AssertUnwindSafe(|| {
                let mut s = Sess::new(cfgv.clone());
                let a = texts(&s.typ("ami").unwrap()); s.finish();
                for t in [":e", "zzqe", "ae", "e", "hello", "hellogulo"] { let _ = s.typ(t); s.finish(); }
                let sg = s.typ("sesh").unwrap();
                let learned = if !sg.is_lonely() && sg.len() > 1 { let t = sg.get_suggestions()[1].clone(); s.commit(1); Some(t) } else { s.finish(); None };
                let cfg = make_config(&cfgv);
                s.ctx.update_engine(&cfg);
                let _ = s.typ("kotha"); s.finish();
                drop(s);
                // "treated as if the file were absent" also when it comes to saving: the choice committed above is in the store now,
                // so a context created afterwards preselects it
                let recalled = learned.as_ref().map(|_| { let mut f = Sess::new(cfgv.clone()); let b = f.typ("sesh").unwrap(); f.finish(); b.get_suggestions().get(b.previously_selected_index()).cloned() });
                (a, learned, recalled)
            }));
            match r {
                Err(_) => o.fail(json!({"clause": "C01 C10 damaged user file never stops the keyboard (panic)", "history": hist})),
                Ok((a, learned, recalled)) => {
                    let readable = serde_json::from_slice::<std::collections::HashMap<String, String>>(&content).is_ok();
                    if !readable && a != reference { o.fail(json!({"clause": "C10 unreadable content is treated as if the file were absent", "history": hist, "observed": a, "expected": reference})); }
                    if let (Some(l), Some(rc)) = (&learned, &recalled) { if rc.as_ref() != Some(l) {
                        o.fail(json!({"clause": "C09 C10 a damaged user file is treated as absent for saving too: a choice committed while it is there is recalled by a context created afterwards", "history": hist, "observed": rc, "expected": l}));
                    } }
                    o.nontrivial += 1;
                }
            }
        }
        // a failed save loses at most that one learned choice: the user-data directory is unusable for one commit (a plain file in
        // its place), usable again for the next one; a new context must recall the second choice
        {
            o.cases += 1;
            crate::verif_driver::reset_user_files();
            let dir = crate::verif_driver::user_dir();
            let r = std::panic::catch_unwind(std::panic::AssertUnwindSafe(|| {
                let mut s = Sess::new(cfgv.clone());
                let _ = std::fs::remove_dir_all(&dir);
                std::fs::write(&dir, b"not a directory").unwrap();
                let sg = s.typ("sesh").unwrap(); if !sg.is_lonely() && sg.len() > 1 { s.commit((sg.previously_selected_index() + 1) % sg.len()); } else { s.finish(); }
                s.events.push(json!({"note": "the user-data directory was a plain file during this commit; it is a directory again from here on"}));
                let _ = std::fs::remove_file(&dir);
                std::fs::create_dir_all(&dir).unwrap();
                let sg = s.typ("kotha").unwrap();
                let want = if !sg.is_lonely() && sg.len() > 1 { let i = (sg.previously_selected_index() + 1) % sg.len(); let t = sg.get_suggestions()[i].clone(); s.commit(i); Some(t) } else { s.finish(); None };
                (s.history(), want)
            }));
            match r {
                Err(_) => { let _ = std::fs::remove_file(&dir); o.fail(json!({"clause": "C01 C10 an unusable user-data directory never stops the keyboard (panic)", "history": {"config": cfgv, "events": "commit with the user-data directory replaced by a plain file, then restored"}})); }
                Ok((hist, Some(want))) => {
                    let mut fresh = Sess::new(cfgv.clone());
                    let a = fresh.typ("kotha").unwrap(); fresh.finish();
                    if a.get_suggestions().get(a.previously_selected_index()) != Some(&want) {
                        o.fail(json!({"clause": "C10 a failed save loses at most that one learned choice (a later choice, saved when the directory is usable again, is recalled by a new context)", "history": hist, "observed": show(&a), "expected": want}));
                    }
                    o.nontrivial += 1;
                }
                Ok(_) => {}
            }
            crate::verif_driver::reset_user_files();
        }
        // a user auto-correct entry with an EMPTY replacement for exactly the word typed: the list the host is shown and the list the
        // engine indexes stay the same list -- the returned suggestion is self-consistent (C02), a committed row is the text that is
        // learned, and nothing panics (C10)
        for doc in ["{\"ami\":\"\"}", "{\"ami\":\"\",\"sesh\":\"\"}"] {
            o.cases += 1;
            crate::verif_driver::reset_user_files();
            std::fs::write(crate::verif_driver::user_file_path("autocorrect.json"), doc).unwrap();
            let r = std::panic::catch_unwind(std::panic::AssertUnwindSafe(|| {
                let mut s = Sess::new(cfgv.clone());
                let sg = s.typ("ami").unwrap();
                if let Some(e) = check_sg(&sg, Some("ami")) { return Some(json!({"clause": format!("C02 C10 {} (user auto-correct entry with an empty replacement)", e), "history": s.history(), "observed": show(&sg)})); }
                if sg.is_lonely() || sg.len() < 2 { s.finish(); return None; }
                // commit the LAST shown row, then type the word again: that very text is preselected
                let last = sg.len() - 1;
                let text = sg.get_suggestions()[last].clone();
                s.commit(last);
                let again = s.typ("ami").unwrap();
                let out = if let Some(e) = check_sg(&again, Some("ami")) { Some(json!({"clause": format!("C02 C10 {} (after a commit; user auto-correct entry with an empty replacement)", e), "history": s.history(), "observed": show(&again)})) }
                    else if again.get_suggestions().get(again.previously_selected_index()) != Some(&text) { Some(json!({"clause": "C09 C10 the committed row is the choice that is learned (user auto-correct entry with an empty replacement)", "history": s.history(), "observed": show(&again), "expected": text})) }
                    else { None };
                s.finish();
                if out.is_some() { return out; }
                // the entry goes away again (the user repairs the file): what was learned while it was there is the row that was shown
                let _ = std::fs::remove_file(crate::verif_driver::user_file_path("autocorrect.json"));
                let mut f = Sess::new(cfgv.clone());
                let a = f.typ("ami").unwrap(); f.finish();
                if a.get_suggestions().get(a.previously_selected_index()) != Some(&text) {
                    return Some(json!({"clause": "C09 C10 the row committed while the user's auto-correct list had an entry with an empty string is the choice recalled once the entry is gone", "history": {"config": cfgv, "events": "autocorrect.json = doc; type ami; commit the last row; remove autocorrect.json; new context; type ami", "autocorrect.json": doc}, "observed": show(&a), "expected": text}));
                }
                // and the other way round: a choice learned without the entry stays inside the list, and is the preselected row, once the entry appears
                std::fs::write(crate::verif_driver::user_file_path("autocorrect.json"), doc).unwrap();
                let mut g = Sess::new(cfgv.clone());
                let b = g.typ("ami").unwrap(); g.finish();
                if let Some(e) = check_sg(&b, Some("ami")) { return Some(json!({"clause": format!("C02 C10 {} (choice learned before the entry with an empty string appeared)", e), "history": {"config": cfgv, "events": "learn the last row of ami; autocorrect.json = doc; new context; type ami", "autocorrect.json": doc}, "observed": show(&b)})); }
                if b.get_suggestions().get(b.previously_selected_index()) != Some(&text) {
                    return Some(json!({"clause": "C09 C10 a learned choice is still the preselected row after the user's auto-correct list got an entry with an empty string", "history": {"config": cfgv, "events": "learn the last row of ami; autocorrect.json = doc; new context; type ami", "autocorrect.json": doc}, "observed": show(&b), "expected": text}));
                }
                None
            }));
            match r {
                Err(_) => o.fail(json!({"clause": "C01 C10 user auto-correct entries with empty strings never stop the keyboard (panic)", "history": {"config": cfgv, "file": "autocorrect.json", "content": doc, "events": "type ami; commit the last row; type ami"}})),
                Ok(Some(f)) => o.fail(f),
                Ok(None) => { o.nontrivial += 1; }
            }
        }
        // entries with empty strings arriving through a reload of the configuration
        for doc in ["{\"zzq\":\"\",\"zzx\":\"ami\"}", "{\"zzq\":\"`\"}", "{\"\":\"\"}"] {
            o.cases += 1;
            crate::verif_driver::reset_user_files();
            let r = std::panic::catch_unwind(std::panic::AssertUnwindSafe(|| {
                let mut s = Sess::new(cfgv.clone());
                let _ = s.typ("zzqe"); s.finish();
                let path = crate::verif_driver::user_file_path("autocorrect.json");
                std::fs::write(&path, doc).unwrap();
                crate::verif_driver::set_mtime(&path, 4_000_000_000);
                let cfg = make_config(&cfgv);
                s.ctx.update_engine(&cfg);
                for t in ["zzqe", "zzq", "zzxe", "e"] { let sg = s.typ(t).unwrap(); if !sg.is_lonely() && sg.len() > 1 { s.commit(1); } else { s.finish(); } }
            }));
            if r.is_err() { o.fail(json!({"clause": "C01 C10 user auto-correct entries with empty strings (loaded by update_engine) never stop the keyboard (panic)", "history": {"config": cfgv, "events": "type zzqe; write autocorrect.json; update_engine; type zzqe, zzq, zzxe, e with commits", "autocorrect.json": doc}})); }
        }
        // the user auto-correct list damaged / removed / replaced by a non-ASCII entry while a word is being composed; the
        // configuration is re-loaded inside the composition and a candidate other than the preselected one is committed
        for (name, after) in [("truncated", Some("{\"zzq\":\"ko")), ("empty", Some("")), ("removed", None), ("non-ascii entry", Some("{\"ami\":\"\u{09B8}\u{09BE}\u{09B2}\u{09BE}\u{09AE}\",\"hello\":\"\u{09B8}\u{09BE}\"}"))] {
            o.cases += 1;
            crate::verif_driver::reset_user_files();
            let path = crate::verif_driver::user_file_path("autocorrect.json");
            std::fs::write(&path, "{\"zzq\":\"kotha\"}").unwrap();
            crate::verif_driver::set_mtime(&path, 1_000_000);
            let r = std::panic::catch_unwind(std::panic::AssertUnwindSafe(|| {
                let mut s = Sess::new(cfgv.clone());
                let sg = s.typ("ami").unwrap();
                match after { Some(a) => { std::fs::write(&path, a).unwrap(); crate::verif_driver::set_mtime(&path, 2_000_000); } None => { let _ = std::fs::remove_file(&path); } }
                let cfg = make_config(&cfgv);
                s.ctx.update_engine(&cfg);
                if !sg.is_lonely() && sg.len() > 1 { s.commit((sg.previously_selected_index() + 1) % sg.len()); } else { s.finish(); }
                let ended = !s.ctx.ongoing_input_session();
                for t in ["ami", "hello", "zzq"] { let _ = s.typ(t); s.finish(); }
                ended
            }));
            let hist = json!({"config": cfgv, "events": "autocorrect.json = {\"zzq\":\"kotha\"}; create context; type ami; change the file; update_engine; commit a non-preselected candidate; type ami, hello, zzq", "change": name, "autocorrect.json afterwards": after});
            match r {
                Err(_) => o.fail(json!({"clause": "C10 a user file damaged during a composition never stops the keyboard (panic after re-loading, committing or typing)", "history": hist})),
                Ok(false) => o.fail(json!({"clause": "C10 a commit after a re-load inside a composition ends the session", "history": hist})),
                Ok(true) => { o.nontrivial += 1; }
            }
        }
        // missing user-data directory
        o.cases += 1;
        crate::verif_driver::remove_user_dir();
        let r = std::panic::catch_unwind(std::panic::AssertUnwindSafe(|| {
            let mut s = Sess::new(cfgv.clone());
            let sg = s.typ("sesh").unwrap(); if !sg.is_lonely() && sg.len() > 1 { s.commit(1); }
            let _ = s.typ("sesh");
        }));
        if r.is_err() { o.fail(json!({"clause": "C01 C10 missing user-data directory never stops the keyboard (panic)", "history": {"config": cfgv, "events": "remove user dir; type sesh; commit 1; type sesh"}})); }
        crate::verif_driver::reset_user_files();
        o.sample(json!({"file": "phonetic-candidate-selection.json", "prefix_len": 7}));
        o.done()
    }

    /// C11: update_engine on an idle context == a new context
    pub(crate) fn update_engine(_bound: usize) -> Value {
        let mut o = Out::new("update_engine", 1, "user auto-correct edits (add / change / remove entry, remove file, damaged file) between two update_engine calls x words typed before the edit; option flips; phonetic <-> fixed");
        let cfgv = phon_cfg(json!({}));
        let edits: [(&str, Option<&str>, Option<&str>); 7] = [
            ("non-ascii entry", Some("{\"zzq\":\"kotha\"}"), Some("{\"hello\":\"\u{09B8}\u{09BE}\u{09B2}\u{09BE}\u{09AE}\",\"zzq\":\"kotha\"}")),
            ("add", None, Some("{\"zzq\":\"kotha\"}")),
            ("change", Some("{\"zzq\":\"kotha\",\"hello\":\"salam\"}"), Some("{\"zzq\":\"amar\",\"hello\":\"salam\"}")),
            ("remove entry", Some("{\"zzq\":\"kotha\",\"hello\":\"salam\"}"), Some("{\"zzq\":\"kotha\"}")),
            ("remove file", Some("{\"hello\":\"salam\"}"), None),
            ("damage", Some("{\"hello\":\"salam\"}"), Some("{\"hello\":\"sal")),
            ("empty list", Some("{\"hello\":\"salam\"}"), Some("{}")),
        ];
        for (name, before, after) in edits {
            o.cases += 1;
            crate::verif_driver::reset_user_files();
            let path = crate::verif_driver::user_file_path("autocorrect.json");
            if let Some(b) = before { std::fs::write(&path, b).unwrap(); crate::verif_driver::set_mtime(&path, 1_000_000); }
            let mut s = Sess::new(cfgv.clone());
            for w in ["hello", "zzq", "hellogulo", "kotha"] { let _ = s.typ(w); s.finish(); }
            // the edit reaches the disk the way editors and settings dialogs save: in place for some, as a new file renamed over the
            // old one (another inode under the same name) for the others
            match after {
                Some(a) => {
                    if before.is_none() || name == "damage" || name == "empty list" { std::fs::write(&path, a).unwrap(); }
                    else { let tmp = format!("{}.tmp", path); std::fs::write(&tmp, a).unwrap(); std::fs::rename(&tmp, &path).unwrap(); }
                    crate::verif_driver::set_mtime(&path, 2_000_000);
                }
                None => { let _ = std::fs::remove_file(&path); }
            }
            let cfg = make_config(&cfgv);
            s.ctx.update_engine(&cfg);
            s.events.push(json!({"note": format!("user auto-correct edit: {} ({}); then update_engine", name, if before.is_none() || name == "damage" || name == "empty list" { "written in place" } else { "renamed over" })}));
            let mut fresh = Sess::new(cfgv.clone());
            for w in ["hello", "zzq", "hellogulo", "zzqgulo", "kotha"] {
                let r = std::panic::catch_unwind(std::panic::AssertUnwindSafe(|| { let a = s.typ(w).unwrap(); s.finish(); a }));
                let b = fresh.typ(w).unwrap(); fresh.finish();
                match r {
                    Ok(a) => if !same(&a, &b) { o.fail(json!({"clause": format!("{} edited user auto-correct list is honoured for every word after update_engine (a damaged or removed file counts as absent)", if name == "damage" || name == "remove file" { "C10 C11 C07" } else { "C11 C07" }), "edit": name, "before": before, "after": after, "history": s.history(), "observed": show(&a), "expected": show(&b)})); },
                    Err(_) => { o.fail(json!({"clause": format!("{} edited user auto-correct list is honoured for every word after update_engine (a damaged or removed file counts as absent)", if name == "damage" || name == "remove file" { "C10 C11 C07" } else { "C11 C07" }), "edit": name, "before": before, "after": after, "history": s.history(), "observed": "panic", "expected": show(&b)})); break; }
                }
            }
            o.nontrivial += 1;
        }
        // option flips take effect at once; layout switch
        for (k, v) in [("include_english", true), ("ansi", true), ("smart_quote", true), ("phonetic_suggestion", false)] {
            o.cases += 1;
            crate::verif_driver::reset_user_files();
            let mut s = Sess::new(cfgv.clone());
            let _ = s.typ("\"amar\""); s.finish();
            let mut c2 = cfgv.clone(); c2[k] = json!(v);
            let cfg = make_config(&c2);
            s.ctx.update_engine(&cfg);
            let mut fresh = Sess::new(c2.clone());
            let a = s.typ("\"amar\"").unwrap(); let b = fresh.typ("\"amar\"").unwrap();
            if !same(&a, &b) || a.get_pre_edit_text(0) != b.get_pre_edit_text(0) { o.fail(json!({"clause": "C11 option change takes effect at once", "option": k, "observed": show(&a), "expected": show(&b)})); }
        }
        // a context created in ANSI mode and switched to Unicode offers emoji like a new one (C11, C18)
        for phonetic in [true, false] {
            o.cases += 1;
            let mk = |ansi: bool| if phonetic { phon_cfg(json!({"ansi": ansi})) } else { let mut c = fixed_cfg(json!({"fixed_suggestion": true, "ansi": ansi, "fixed_vowel": true})); c["layout"] = json!(crate::verif_driver::probhat_layout()); c };
            let mut s = Sess::new(mk(true));
            let _ = s.typ(";)"); s.finish();
            let cfg = make_config(&mk(false));
            s.ctx.update_engine(&cfg);
            let mut fresh = Sess::new(mk(false));
            for t in [";)", if phonetic { "smile" } else { "hasi" }] {
                let a = s.typ(t).unwrap(); s.finish();
                let b = fresh.typ(t).unwrap(); fresh.finish();
                if !same(&a, &b) {
                    o.fail(json!({"clause": "C11 ANSI switched off on a live context: emoji are offered as in a new context", "text": t, "history": s.history(), "observed": show(&a), "expected": show(&b)}));
                    o.fail(json!({"clause": "C18 outside ANSI mode (after a switch from ANSI on a live context) every emoticon / emoji name offers its emoji", "text": t, "history": s.history(), "observed": show(&a), "expected": show(&b)}));
                }
            }
        }
        {
            o.cases += 1;
            let mut s = Sess::new(cfgv.clone());
            let _ = s.typ("ami"); s.finish();
            let c2 = fixed_cfg(json!({"fixed_suggestion": true}));
            let cfg = make_config(&c2);
            s.ctx.update_engine(&cfg);
            let mut fresh = Sess::new(c2.clone());
            let a = s.typ("tp").unwrap(); let b = fresh.typ("tp").unwrap();
            if !same(&a, &b) { o.fail(json!({"clause": "C11 changed layout switches method", "observed": show(&a), "expected": show(&b)})); }
        }
        {
            // fixed -> fixed with another layout file
            o.cases += 1;
            let mut c1 = fixed_cfg(json!({"fixed_suggestion": true})); c1["layout"] = json!(crate::verif_driver::probhat_layout());
            let mut s = Sess::new(c1);
            let _ = s.typ("tp"); s.finish();
            let c2 = fixed_cfg(json!({"fixed_suggestion": true}));
            let cfg = make_config(&c2);
            s.ctx.update_engine(&cfg);
            let mut fresh = Sess::new(c2.clone());
            let a = s.typ("tpu").unwrap(); let b = fresh.typ("tpu").unwrap();
            if !same(&a, &b) { o.fail(json!({"clause": "C11 fixed -> fixed with another layout file loads the new layout", "observed": show(&a), "expected": show(&b)})); }
        }
        // every ordered pair of a configuration family (phonetic with / without suggestions, Probhat with the number pad on /
        // off, the synthetic layout with old vowel-sign order): a live context re-configured from A to B answers the probes
        // exactly like a context newly created under B over the same user files (learned choice, user auto-correct list)
        {
            let full = |layout: String, sug: bool, fsug: bool, numpad: bool, kar_order: bool| json!({
                "layout": layout, "database_dir": crate::verif_driver::data_dir(), "phonetic_suggestion": sug, "include_english": false,
                "fixed_suggestion": fsug, "fixed_vowel": true, "fixed_chandra": false, "fixed_kar": false, "fixed_old_reph": false,
                "fixed_numpad": numpad, "fixed_kar_order": kar_order, "ansi": false, "smart_quote": false });
            let family: Vec<(&str, Value)> = vec![
                ("phonetic+suggestions", full("avro_phonetic".into(), true, false, true, false)),
                ("phonetic-suggestions", full("avro_phonetic".into(), false, false, false, false)),
                ("probhat+numpad+suggestions", full(crate::verif_driver::probhat_layout(), true, true, true, false)),
                ("probhat-numpad-suggestions", full(crate::verif_driver::probhat_layout(), false, false, false, false)),
                ("synthetic+old-kar-order", full(crate::verif_driver::synthetic_layout(), true, false, false, true)),
            ];
            // the learned choice: the second candidate of "amar"
            crate::verif_driver::reset_user_files();
            let learned = { let mut s = Sess::new(family[0].1.clone()); let sg = s.typ("amar").unwrap(); texts(&sg).get(1).cloned().unwrap_or_default() };
            let sel_file = serde_json::to_string(&json!({"amar": learned})).unwrap();
            let ac_file = "{\"zzq\":\"kotha\"}".to_string();
            let layout_of = |c: &Value| -> Option<serde_json::Map<String, Value>> {
                let l = c["layout"].as_str().unwrap();
                if l == "avro_phonetic" { return None; }
                let v: Value = serde_json::from_str(&std::fs::read_to_string(l).unwrap()).unwrap();
                v["layout"].as_object().cloned()
            };
            let pad: [(u16, &str); 4] = [(79, "Num1"), (80, "Num2"), (78, "NumAdd"), (83, "NumDecimal")];
            for (na, a) in &family { for (nb, b) in &family {
                if na == nb { continue; }
                o.cases += 1;
                let write_files = || {
                    crate::verif_driver::reset_user_files();
                    std::fs::write(crate::verif_driver::user_file_path("phonetic-candidate-selection.json"), &sel_file).unwrap();
                    let p = crate::verif_driver::user_file_path("autocorrect.json");
                    std::fs::write(&p, &ac_file).unwrap(); crate::verif_driver::set_mtime(&p, 1_000_000);
                };
                write_files();
                let mut s = Sess::new(a.clone());
                let _ = s.typ(if a["layout"] == "avro_phonetic" { "ami" } else { "tp" }); s.finish();
                s.update(b);
                let mut fresh = Sess::new(b.clone());
                let hist = |s: &Sess| { let mut h = s.history(); h["keep_files"] = json!(false); h["files"] = json!({"phonetic-candidate-selection.json": sel_file, "autocorrect.json": ac_file}); h };
                if b["layout"] == "avro_phonetic" {
                    for w in ["amar", "kothagulo", "academy", "zzq", "smile", "\"amar\""] {
                        let x = s.typ(w).unwrap(); s.finish();
                        let y = fresh.typ(w).unwrap(); fresh.finish();
                        if show(&x) != show(&y) {
                            o.fail(json!({"clause": "C11 after update_engine every later event behaves as in a context newly created with that configuration", "from": na, "to": nb, "probe": w, "history": hist(&s), "observed": show(&x), "expected": show(&y)}));
                            if w == "amar" && b["phonetic_suggestion"] == true && texts(&x) == texts(&y) {
                                o.fail(json!({"clause": "C09 a choice learned earlier (stored in the user-data directory) is preselected whenever suggestions are on, however the context was configured when it was created", "from": na, "to": nb, "history": hist(&s), "observed": show(&x), "expected": show(&y)}));
                            }
                        }
                    }
                } else {
                    let lay = layout_of(b).unwrap();
                    for w in ["tp", "hasi", "ap."] {
                        let x = s.typ(w).unwrap(); s.finish();
                        let y = fresh.typ(w).unwrap(); fresh.finish();
                        if show(&x) != show(&y) {
                            o.fail(json!({"clause": "C11 after update_engine every later event behaves as in a context newly created with that configuration", "from": na, "to": nb, "probe": w, "history": hist(&s), "observed": show(&x), "expected": show(&y)}));
                        }
                    }
                    for (code, name) in pad {
                        let x = s.code(code, 0); s.finish();
                        let y = fresh.code(code, 0); fresh.finish();
                        if show(&x) != show(&y) {
                            o.fail(json!({"clause": "C11 after update_engine every later event behaves as in a context newly created with that configuration", "from": na, "to": nb, "probe": name, "history": hist(&s), "observed": show(&x), "expected": show(&y)}));
                        }
                        // C04, against the layout file itself: the key-pad key emits its assignment exactly while the option is on
                        let want = if b["fixed_numpad"] == true { lay.get(name).and_then(|v| v.as_str()).filter(|v| !v.is_empty()).map(|v| v.to_string()) } else { None };
                        let got = if x.is_empty() { None } else { Some(texts(&x)[0].clone()) };
                        if got != want {
                            o.fail(json!({"clause": "C04 number-pad keys produce their assignment exactly while the number-pad option is on (option changed by update_engine on a live context)", "from": na, "to": nb, "key": name, "history": hist(&s), "observed": got, "expected": want}));
                        }
                    }
                }
                o.nontrivial += 1;
            }}
        }
        // phonetic -> fixed layout -> (user auto-correct file edited meanwhile) -> phonetic again: as a new context
        for (name, before, after) in [("add", None, Some("{\"zzq\":\"kotha\"}")), ("change", Some("{\"zzq\":\"kotha\"}"), Some("{\"zzq\":\"amar\"}")), ("remove file", Some("{\"zzq\":\"kotha\"}"), None),
                                      ("damage", Some("{\"zzq\":\"kotha\"}"), Some("{\"zzq\":\"ko")), ("wrong shape", Some("{\"zzq\":\"kotha\"}"), Some("[\"zzq\"]"))] {
            o.cases += 1;
            crate::verif_driver::reset_user_files();
            let path = crate::verif_driver::user_file_path("autocorrect.json");
            if let Some(b) = before { std::fs::write(&path, b).unwrap(); crate::verif_driver::set_mtime(&path, 1_000_000); }
            let mut s = Sess::new(cfgv.clone());
            for w in ["zzq", "zzqgulo"] { let _ = s.typ(w); s.finish(); }
            let fx = fixed_cfg(json!({"fixed_suggestion": true}));
            s.update(&fx);
            let _ = s.typ("tp"); s.finish();
            match after { Some(a) => { std::fs::write(&path, a).unwrap(); crate::verif_driver::set_mtime(&path, 2_000_000); } None => { let _ = std::fs::remove_file(&path); } }
            s.events.push(json!({"note": format!("user auto-correct edit while the fixed layout is active: {}", name)}));
            s.update(&cfgv);
            let mut fresh = Sess::new(cfgv.clone());
            for w in ["zzq", "zzqgulo", "kotha"] {
                let x = s.typ(w).unwrap(); s.finish();
                let y = fresh.typ(w).unwrap(); fresh.finish();
                if show(&x) != show(&y) { o.fail(json!({"clause": "C11 C10 a changed layout switches the method; back on the phonetic layout every event behaves as in a new context (user auto-correct file edited, damaged or removed while the fixed layout was active)", "edit": name, "probe": w, "history": s.history(), "observed": show(&x), "expected": show(&y)})); }
            }
            o.nontrivial += 1;
        }
        // single-option flips on a live context, both directions, in both methods: the probe words are typed BEFORE and AFTER the
        // switch ("including words that were already typed before"), and compared with a context newly created under the new options
        {
            let full = |layout: String| json!({
                "layout": layout, "database_dir": crate::verif_driver::data_dir(), "phonetic_suggestion": true, "include_english": false,
                "fixed_suggestion": true, "fixed_vowel": true, "fixed_chandra": false, "fixed_kar": false, "fixed_old_reph": false,
                "fixed_numpad": false, "fixed_kar_order": false, "ansi": false, "smart_quote": false });
            let opts = ["phonetic_suggestion", "include_english", "fixed_suggestion", "fixed_vowel", "fixed_chandra", "fixed_kar", "fixed_old_reph", "fixed_numpad", "fixed_kar_order", "ansi", "smart_quote"];
            let bases: Vec<(&str, Value, Vec<&str>)> = vec![
                ("phonetic", full("avro_phonetic".into()), vec!["amar", "cool", "\"kotha\"", "academy", ";)", "a", "o"]),
                ("probhat", full(crate::verif_driver::probhat_layout()), vec!["bab", "tp", "hasi", "\"tp\"", "kuk", ";)", "[k", "k[a", "ru", "k>a", "ab", "ek", "ik", "mQ"]),
                // the synthetic layout has a reph key (q), hasanta (w), left-standing signs (d e f), chandrabindu (o), ZWJ (`): one probe
                // at least is sensitive to each composition helper -- from a base with the helpers off and from one with all of them on
                ("synthetic", full(crate::verif_driver::synthetic_layout()), vec!["tq", "tpq", "twtq", "ftq", "dt", "et", "dtp", "top", "toe", "p", "ept", "uc", "tuc", "\"tp\"", ";)"]),
                ("synthetic, helpers on", { let mut c = full(crate::verif_driver::synthetic_layout()); for k in ["fixed_vowel", "fixed_chandra", "fixed_kar", "fixed_old_reph", "fixed_numpad", "fixed_kar_order"] { c[k] = json!(true); } c },
                    vec!["tq", "tpq", "twtq", "ftq", "dt", "et", "dtp", "top", "toe", "p", "ept", "uc", "tuc", "\"tp\"", ";)"]),
            ];
            let pad_codes: Vec<u16> = { let kt: Value = serde_json::from_str(&std::fs::read_to_string(crate::verif_driver::gen_file("keytable.json")).unwrap_or("[]".into())).unwrap_or(json!([]));
                kt.as_array().cloned().unwrap_or_default().iter().filter(|r| r["kind"] == "pad").map(|r| r["code"].as_u64().unwrap() as u16).collect() };
            for (bn, base, probes) in &bases { for opt in opts { for first in [false, true] {
                o.cases += 1;
                let tag = match opt { "ansi" => "C05 C06 C11 C16 C18", "smart_quote" => "C05 C06 C11 C17", "include_english" => "C05 C06 C11 C16 C15", "fixed_kar_order" => "C05 C06 C11 C14 C04", "fixed_kar" | "fixed_vowel" | "fixed_chandra" => "C05 C06 C11 C12 C04", "fixed_old_reph" => "C05 C06 C11 C13 C04", "fixed_numpad" => "C05 C06 C11 C04", _ => "C05 C06 C11" };
                let mut a = base.clone(); a[opt] = json!(first);
                let mut b = base.clone(); b[opt] = json!(!first);
                crate::verif_driver::reset_user_files();
                let mut s = Sess::new(a.clone());
                for w in probes { let _ = s.typ(w); s.finish(); }
                // every key-pad key pressed once before the switch as well
                if *bn != "phonetic" { for c in pad_codes.iter() { let _ = s.code_mod(*c, 0, 0); s.finish(); } }
                s.update(&b);
                let mut fresh = Sess::new(b.clone());
                if *bn != "phonetic" {
                    for c in pad_codes.iter() {
                        let x = s.code_mod(*c, 0, 0); s.finish();
                        let y = fresh.code_mod(*c, 0, 0); fresh.finish();
                        if show(&x) != show(&y) {
                            o.fail(json!({"clause": format!("{} an option changed by update_engine on an idle context takes effect at once, also for key-pad keys pressed before the change", tag), "method": bn, "option": opt, "from": first, "key": c, "history": s.history(), "observed": show(&x), "expected": show(&y)}));
                            break;
                        }
                    }
                }
                // in reverse: the first text typed after the switch is the last one typed before it
                for w in probes.iter().rev() {
                    let r = std::panic::catch_unwind(std::panic::AssertUnwindSafe(|| { let x = s.typ(w).unwrap(); s.finish(); x }));
                    let y = fresh.typ(w).unwrap(); fresh.finish();
                    match r {
                        Ok(x) => if show(&x) != show(&y) {
                            o.fail(json!({"clause": format!("{} an option changed by update_engine on an idle context takes effect at once, also for words typed before the change", tag), "method": bn, "option": opt, "from": first, "probe": w, "history": s.history(), "observed": show(&x), "expected": show(&y)}));
                        },
                        Err(_) => o.fail(json!({"clause": format!("{} an option changed by update_engine on an idle context takes effect at once, also for words typed before the change", tag), "method": bn, "option": opt, "from": first, "probe": w, "history": s.history(), "observed": "panic"})),
                    }
                }
                o.nontrivial += 1;
            }}}
        }
        // the data FILES count, not the path they are found under nor which other contexts are alive (C05): a context is created over
        // directory A and kept alive, the dictionary of A is replaced, a second context is created over A -- it answers like a context
        // over directory B that holds byte-identical files
        {
            o.cases += 1;
            let (da, db) = (format!("{}/verif-data-a", crate::verif_driver::user_dir()), format!("{}/verif-data-b", crate::verif_driver::user_dir()));
            for d in [&da, &db] { let _ = std::fs::remove_dir_all(d); std::fs::create_dir_all(d).unwrap(); for f in ["suffix.json", "autocorrect.json"] { std::fs::copy(format!("{}/{}", crate::verif_driver::data_dir(), f), format!("{}/{}", d, f)).unwrap(); } }
            std::fs::write(format!("{}/dictionary.json", da), "{}").unwrap();
            std::fs::copy(format!("{}/dictionary.json", crate::verif_driver::data_dir()), format!("{}/dictionary.json", db)).unwrap();
            let (mut ca, mut cb) = (phon_cfg(json!({})), phon_cfg(json!({})));
            ca["database_dir"] = json!(da); cb["database_dir"] = json!(db);
            let mut first = Sess::new(ca.clone());
            let _ = first.typ("kotha"); first.finish();
            std::fs::copy(format!("{}/dictionary.json", crate::verif_driver::data_dir()), format!("{}/dictionary.json", da)).unwrap();
            let mut second = Sess::new(ca.clone());
            let mut other = Sess::new(cb.clone());
            for w in ["kotha", "kothagulo", "amar"] {
                let x = second.typ(w).unwrap(); second.finish();
                let y = other.typ(w).unwrap(); other.finish();
                if show(&x) != show(&y) {
                    o.fail(json!({"clause": "C05 a context created after the data files were replaced answers from the files as they are now (an older context over the same directory is still alive), like a context over another directory with identical files", "probe": w, "history": second.history(), "observed": show(&x), "expected": show(&y)}));
                    break;
                }
            }
            let _ = first.typ("a"); first.finish();
            for d in [&da, &db] { let _ = std::fs::remove_dir_all(d); }
            o.nontrivial += 1;
        }
        // a configuration that names ANOTHER data directory (not covered by C11, which fixes the data directory): whatever the engine
        // does with it, two contexts with the same configuration history must agree -- one that composed the probe words before the
        // switch (warm memo) and one that composed nothing (C05: a function of text, configuration, data files and selections only;
        // C08: candidates justified by the dictionary in use)
        {
            let dir = format!("{}/verif-other-data", crate::verif_driver::user_dir());
            let _ = std::fs::remove_dir_all(&dir);
            std::fs::create_dir_all(&dir).unwrap();
            std::fs::write(format!("{}/dictionary.json", dir), "{}").unwrap();
            for f in ["suffix.json", "autocorrect.json"] { std::fs::copy(format!("{}/{}", crate::verif_driver::data_dir(), f), format!("{}/{}", dir, f)).unwrap(); }
            let real = phon_cfg(json!({}));
            let mut other = real.clone(); other["database_dir"] = json!(dir);
            for (a, b, what) in [(&real, &other, "bundled data -> directory with an empty dictionary"), (&other, &real, "directory with an empty dictionary -> bundled data")] {
                o.cases += 1;
                crate::verif_driver::reset_user_files();
                let mut warm = Sess::new(a.clone());
                for w in ["kotha", "as", "kothagulo", "amar"] { let _ = warm.typ(w); warm.finish(); }
                warm.update(b);
                let mut cold = Sess::new(a.clone());
                cold.update(b);
                for w in ["kotha", "kothagulo", "as", "asgulo", "amar", "kor"] {
                    let x = warm.typ(w).unwrap(); warm.finish();
                    let y = cold.typ(w).unwrap(); cold.finish();
                    if show(&x) != show(&y) {
                        o.fail(json!({"clause": "C05 C08 C07 after update_engine with a configuration that names another data directory, a context that composed the words before and one that composed nothing give the same suggestions", "switch": what, "probe": w, "history": warm.history(), "observed": show(&x), "expected": show(&y)}));
                        break;
                    }
                }
                o.nontrivial += 1;
            }
            let _ = std::fs::remove_dir_all(&dir);
        }
        // fixed -> fixed with another layout file, both directions: EVERY published key (plain and AltGr, key pad on) answers as in a
        // context newly created with the new layout -- nothing of the old layout survives (C04, C11)
        {
            let table: Value = serde_json::from_str(&std::fs::read_to_string(crate::verif_driver::gen_file("keytable.json")).unwrap_or("[]".into())).unwrap_or(json!([]));
            let mk = |layout: String| json!({
                "layout": layout, "database_dir": crate::verif_driver::data_dir(), "phonetic_suggestion": false, "include_english": false,
                "fixed_suggestion": false, "fixed_vowel": false, "fixed_chandra": false, "fixed_kar": false, "fixed_old_reph": false,
                "fixed_numpad": true, "fixed_kar_order": false, "ansi": false, "smart_quote": false });
            let (pl, sl) = (mk(crate::verif_driver::probhat_layout()), mk(crate::verif_driver::synthetic_layout()));
            let via = { let mut c = mk("avro_phonetic".into()); c["phonetic_suggestion"] = json!(true); c };
            for (a, b, dir, hop) in [(&pl, &sl, "Probhat -> synthetic", false), (&sl, &pl, "synthetic -> Probhat", false),
                                     (&pl, &sl, "Probhat -> phonetic -> synthetic", true), (&sl, &pl, "synthetic -> phonetic -> Probhat", true)] {
                o.cases += 1;
                let mut s = Sess::new(a.clone());
                let _ = s.typ("tp"); s.finish();
                // with a stay on the phonetic layout in between: the fixed method that comes back is one for the NEW file
                if hop { s.update(&via); let _ = s.typ("ami"); s.finish(); }
                s.update(b);
                let mut fresh = Sess::new(b.clone());
                let mut reported = 0;
                for r in table.as_array().cloned().unwrap_or_default() {
                    let code = r["code"].as_u64().unwrap_or(0) as u16;
                    for m in [0u8, 2u8] {
                        let x = s.code_mod(code, m, 0); s.finish();
                        let y = fresh.code_mod(code, m, 0); fresh.finish();
                        if show(&x) != show(&y) && reported < 3 {
                            reported += 1;
                            o.fail(json!({"clause": "C04 C11 after a fixed -> fixed layout switch every key emits exactly what the NEW layout file assigns to it (as in a new context)", "switch": dir, "key": code, "modifier": m, "history": s.history(), "observed": show(&x), "expected": show(&y)}));
                        }
                    }
                }
                o.nontrivial += 1;
            }
        }
        crate::verif_driver::reset_user_files();
        o.sample(json!({"edit": "remove entry"}));
        o.done()
    }

    /// C04 through the public API, against the layout file itself: in ONE context every published key is pressed plain, with AltGr
    /// and plain again (all helpers off, key pad on): each press emits exactly the assignment of its plane, whatever was pressed before
    pub(crate) fn layout_api(_bound: usize) -> Value {
        let mut o = Out::new("layout_api", 1, "every published key x {plain, AltGr, plain again} in one context x {Probhat, synthetic layout}, helpers off, key pad on; expected text read from the layout file");
        let table: Value = serde_json::from_str(&std::fs::read_to_string(crate::verif_driver::gen_file("keytable.json")).unwrap_or("[]".into())).unwrap_or(json!([]));
        for layout_path in [crate::verif_driver::probhat_layout(), crate::verif_driver::synthetic_layout()] {
            let raw: Value = serde_json::from_str(&std::fs::read_to_string(&layout_path).unwrap()).unwrap();
            let entries = raw["layout"].as_object().unwrap().clone();
            let cfgv = json!({"layout": layout_path, "database_dir": crate::verif_driver::data_dir(), "phonetic_suggestion": false, "include_english": false,
                "fixed_suggestion": false, "fixed_vowel": false, "fixed_chandra": false, "fixed_kar": false, "fixed_old_reph": false,
                "fixed_numpad": true, "fixed_kar_order": false, "ansi": false, "smart_quote": false});
            let mut s = Sess::new(cfgv);
            let mut reported = 0;
            for pass in 0..2 {
                for r in table.as_array().cloned().unwrap_or_default() {
                    let code = r["code"].as_u64().unwrap_or(0) as u16;
                    let (kind, name) = (r["kind"].as_str().unwrap_or(""), r["name"].as_str().unwrap_or(""));
                    // second pass: AltGr first, then plain
                    let mods: [u8; 3] = if pass == 0 { [0, 2, 0] } else { [2, 0, 2] };
                    for m in mods {
                        o.cases += 1;
                        let exp: Option<String> = match kind {
                            "main" => entries.get(&format!("Key_{}_{}", name, if m & 2 == 2 { "AltGr" } else { "Normal" })).and_then(|v| v.as_str()).filter(|v| !v.is_empty()).map(|v| v.to_string()),
                            "pad" => entries.get(name).and_then(|v| v.as_str()).filter(|v| !v.is_empty()).map(|v| v.to_string()),
                            _ => None,
                        };
                        let sg = s.code_mod(code, m, 0);
                        let got = if sg.is_empty() { None } else { Some(sg.get_lonely_suggestion().to_string()) };
                        s.finish();
                        if exp.is_some() { o.nontrivial += 1; }
                        if got != exp && reported < 4 {
                            reported += 1;
                            o.fail(json!({"clause": "C04 a key emits exactly the text the layout file assigns to it for the current AltGr state, whatever was pressed before in this context", "layout": layout_path, "key": code, "modifier": m, "history": s.history(), "observed": got, "expected": exp}));
                        }
                    }
                }
            }
        }
        // the layout FILE is what counts: a file rewritten in place with the same byte length (two assignments swapped) is read again
        // by a new context and by a switch back to it -- in the same process
        {
            o.cases += 1;
            let dir = crate::verif_driver::user_dir();
            std::fs::create_dir_all(&dir).unwrap();
            let path = format!("{}/verif-layout-copy.json", dir);
            let text = std::fs::read_to_string(crate::verif_driver::synthetic_layout()).unwrap();
            std::fs::write(&path, &text).unwrap();
            let mk = |layout: &str| json!({"layout": layout, "database_dir": crate::verif_driver::data_dir(), "phonetic_suggestion": false, "include_english": false,
                "fixed_suggestion": false, "fixed_vowel": false, "fixed_chandra": false, "fixed_kar": false, "fixed_old_reph": false,
                "fixed_numpad": true, "fixed_kar_order": false, "ansi": false, "smart_quote": false});
            let lone = |sg: &Suggestion| if sg.is_empty() { String::new() } else { sg.get_lonely_suggestion().to_string() };
            let mut s = Sess::new(mk(&path));
            let before = { let sg = s.key('t', 0); s.finish(); lone(&sg) };
            // swap t = ক and i = ত (same byte length, so the file size does not change)
            let swapped = text.replace("\"Key_t_Normal\": \"\u{0995}\"", "\"Key_t_Normal\": \"@@\"").replace("\"Key_i_Normal\": \"\u{09A4}\"", "\"Key_i_Normal\": \"\u{0995}\"").replace("\"Key_t_Normal\": \"@@\"", "\"Key_t_Normal\": \"\u{09A4}\"");
            if swapped != text && swapped.len() == text.len() && before == "\u{0995}" {
                std::fs::write(&path, &swapped).unwrap();
                s.events.push(json!({"note": "layout file rewritten in place: Key_t_Normal and Key_i_Normal swapped (same byte length)"}));
                let mut fresh = Sess::new(mk(&path));
                let a = { let sg = fresh.key('t', 0); fresh.finish(); lone(&sg) };
                if a != "\u{09A4}" { o.fail(json!({"clause": "C04 a key emits what the layout file assigns to it: a new context reads the file as it is now", "history": fresh.history(), "observed": a, "expected": "\u{09A4}"})); }
                // the live context: away to the phonetic layout and back
                s.update(&mk("avro_phonetic"));
                s.update(&mk(&path));
                let b = { let sg = s.key('t', 0); s.finish(); lone(&sg) };
                if b != "\u{09A4}" { o.fail(json!({"clause": "C04 C11 a key emits what the layout file assigns to it: a switch back to the layout reads the file as it is now", "history": s.history(), "observed": b, "expected": "\u{09A4}"})); }
                o.nontrivial += 1;
            }
            let _ = std::fs::remove_file(&path);
        }
        o.sample(json!({"key": 41110, "modifier": 2}));
        o.done()
    }

    fn uncurl(s: &str) -> String { s.chars().map(|c| match c { '\u{2018}' | '\u{2019}' => '\'', '\u{201C}' | '\u{201D}' => '"', c => c }).collect() }

    /// C17: smart quotes on vs off, both methods
    pub(crate) fn smart_quote(bound: usize) -> Value {
        let mut o = Out::new("smart_quote", bound, "words (incl. emoji names) x up to two leading / trailing punctuation characters from {\",',(,.} in both methods; list(on) vs list(off)");
        let punct: Vec<&str> = if bound >= 2 { vec!["", "\"", "'", "(", "\"'", "(\""] } else { vec!["", "\"", "('"] };
        let close: Vec<&str> = if bound >= 2 { vec!["", "\"", "'", ")", "'\"", ".\""] } else { vec!["", "\"", "'."] };
        let jobs: Vec<(bool, Vec<&str>)> = vec![(true, vec!["amar", "bow", "e", "smile"]), (false, vec!["tp", "api", "hasi", "t", "^"])];
        for (phonetic, words) in jobs {
            for eng in [false, true] {
                for w in &words { for p in punct.iter() { for c in close.iter() {
                    let text = format!("{}{}{}", p, w, c);
                    // the fixed-method word "hasi" is typed with Probhat keys (emoji name হাসি)
                    let mk = |smart: bool| -> Value {
                        if phonetic { phon_cfg(json!({"smart_quote": smart, "include_english": eng})) }
                        else if *w == "hasi" { let mut c = fixed_cfg(json!({"fixed_suggestion": true, "smart_quote": smart, "include_english": eng, "fixed_vowel": true})); c["layout"] = json!(crate::verif_driver::probhat_layout()); c }
                        else { fixed_cfg(json!({"fixed_suggestion": true, "smart_quote": smart, "include_english": eng, "fixed_vowel": true})) }
                    };
                    o.cases += 1;
                    let mut on = Sess::new(mk(true));
                    let mut off = Sess::new(mk(false));
                    let a = on.typ(&text).unwrap();
                    let b = off.typ(&text).unwrap();
                    let (la, lb) = (texts(&a), texts(&b));
                    let ua: Vec<String> = la.iter().map(|x| uncurl(x)).collect();
                    if ua != lb || (!a.is_lonely() && a.previously_selected_index() != b.previously_selected_index()) {
                        o.fail(json!({"clause": "C17 list(on) with curved quotes mapped back == list(off)", "history": on.history(), "observed": la, "expected": lb}));
                    }
                    // every candidate that is not the raw typed text is curled exactly where the wrapping quotes are
                    let has_word = !w.is_empty();
                    for (x, y) in la.iter().zip(lb.iter()) {
                        if x == &text || !has_word { continue; }
                        // leading straight quotes of the off-candidate must be opening quotes in the on-candidate, trailing ones closing
                        let yl: Vec<char> = y.chars().collect();
                        let xl: Vec<char> = x.chars().collect();
                        if xl.len() != yl.len() { continue; }
                        let lead = yl.iter().take_while(|c| split::is_meta(**c)).count();
                        let trail = yl.iter().rev().take_while(|c| split::is_meta(**c)).count();
                        for i in 0..yl.len() {
                            let exp = if i < lead { match yl[i] { '\'' => '\u{2018}', '"' => '\u{201C}', c => c } }
                                      else if i >= yl.len() - trail && lead < yl.len() { match yl[i] { '\'' => '\u{2019}', '"' => '\u{201D}', c => c } } else { yl[i] };
                            if lead < yl.len() && xl[i] != exp { o.fail(json!({"clause": "C17 wrapping quotes are curled in every candidate that is not the raw text", "history": on.history(), "observed": x, "off": y})); break; }
                        }
                    }
                    if p.contains('"') || c.contains('"') { o.nontrivial += 1; o.sample(json!({"text": text, "on": la})); }
                }}}
            }
        }
        // the same history under both settings: a quoted word, a non-preselected candidate committed, the word typed again
        // (quoted, then bare) -- same lists (quotes mapped back) and same preselection at every step
        for (quoted, bare) in [("\"sesh", "sesh"), ("'kotha'", "kotha"), ("(\"amar\")", "amar")] {
            o.cases += 1;
            let mut res: Vec<(Vec<(Vec<String>, usize)>, Value)> = Vec::new();
            for smart in [true, false] {
                crate::verif_driver::reset_user_files();
                let mut s = Sess::new(phon_cfg(json!({"smart_quote": smart})));
                let mut steps = Vec::new();
                let a = s.typ(quoted).unwrap();
                steps.push((texts(&a).iter().map(|x| uncurl(x)).collect::<Vec<_>>(), a.previously_selected_index()));
                if a.len() > 1 { s.commit((a.previously_selected_index() + 1) % a.len()); } else { s.finish(); }
                for t in [quoted, bare] {
                    // the preselection is read after the last letter key (a closing quote key may carry the caller's selection)
                    let b = s.typ(t).unwrap(); s.finish();
                    steps.push((texts(&b).iter().map(|x| uncurl(x)).collect::<Vec<_>>(), b.previously_selected_index()));
                }
                res.push((steps, s.history()));
            }
            crate::verif_driver::reset_user_files();
            if res[0].0 != res[1].0 {
                o.fail(json!({"clause": "C17 same list and same preselection with the option on and off, also after a quoted word was learned", "history": res[0].1, "observed": res[0].0, "expected": res[1].0}));
            }
            o.nontrivial += 1;
        }
        o.done()
    }

    /// C16 in both methods for a word corpus
    pub(crate) fn ansi(_bound: usize) -> Value {
        let mut o = Out::new("ansi", 1, "word corpus in both methods with ANSI on, both setter orders of {ANSI, English}");
        for order in [0, 1] {
            for phonetic in [true, false] {
                for w in ["ami", "bow", ":)", "amar", "tp", "api"] {
                    o.cases += 1;
                    let mut cfgv = if phonetic { phon_cfg(json!({})) } else { fixed_cfg(json!({"fixed_suggestion": true})) };
                    cfgv["setter_order"] = json!(if order == 0 { ["include_english", "ansi"] } else { ["ansi", "include_english"] });
                    cfgv["include_english"] = json!(true); cfgv["ansi"] = json!(true);
                    let mut s = Sess::new(cfgv);
                    let sg = s.typ(w).unwrap();
                    if sg.is_lonely() { continue; }
                    let list = texts(&sg);
                    for (i, x) in list.iter().enumerate() {
                        if x.chars().any(|c| c.is_ascii_alphabetic()) || x.chars().any(|c| (c as u32) >= 0x1F000 || ((c as u32) >= 0x2600 && (c as u32) < 0x2800)) {
                            o.fail(json!({"clause": "C16 ANSI: no emoji, emoticon-derived or raw English candidate", "history": s.history(), "observed": list}));
                        }
                        let pe = sg.get_pre_edit_text(i);
                        if pe != poriborton::bijoy2000::unicode_to_bijoy(x) { o.fail(json!({"clause": "C16 pre-edit == Bijoy encoding of the candidate", "history": s.history()})); }
                        if pe.chars().any(|c| ('\u{0980}'..='\u{09FF}').contains(&c)) { o.fail(json!({"clause": "C16 no Bengali-block code point in ANSI pre-edit text", "history": s.history(), "observed": pe})); }
                    }
                    o.nontrivial += 1;
                    o.sample(json!({"word": w, "list": list}));
                }
            }
        }
        // every key of both layouts, plain and AltGr, alone and after a consonant, with ANSI on: every index of the returned suggestion
        // can be read as pre-edit text and is the Bijoy encoding (C02, C16).  Carve-out = the recorded known finding: texts that
        // contain U+09C4, for which the converter of the dependency panics; everything else is reported
        {
            let table: Value = serde_json::from_str(&std::fs::read_to_string(crate::verif_driver::gen_file("keytable.json")).unwrap_or("[]".into())).unwrap_or(json!([]));
            let mut known = 0u64;
            for layout_path in [crate::verif_driver::probhat_layout(), crate::verif_driver::synthetic_layout()] {
                for list in [false, true] {
                    let mut cfgv = fixed_cfg(json!({"fixed_suggestion": list, "ansi": true, "fixed_numpad": true}));
                    cfgv["layout"] = json!(layout_path);
                    let mut s = Sess::new(cfgv.clone());
                    let mut reported = 0;
                    for r in table.as_array().cloned().unwrap_or_default() {
                        let code = r["code"].as_u64().unwrap_or(0) as u16;
                        for m in [0u8, 2u8] { for lead in [false, true] {
                            o.cases += 1;
                            if lead { let _ = s.key(if layout_path.ends_with("Probhat.json") { 'k' } else { 't' }, 0); }
                            let sg = s.code_mod(code, m, 0);
                            let n = if sg.is_empty() { 0 } else if sg.is_lonely() { 1 } else { sg.len() };
                            for i in 0..n {
                                let cand = if sg.is_lonely() { sg.get_lonely_suggestion().to_string() } else { sg.get_suggestions()[i].clone() };
                                let read = std::panic::catch_unwind(std::panic::AssertUnwindSafe(|| sg.get_pre_edit_text(i)));
                                match read {
                                    Err(_) => {
                                        if cand.contains('\u{09C4}') { known += 1; }
                                        else if reported < 3 { reported += 1; o.fail(json!({"clause": "C02 C16 every index below the length can be read as pre-edit text (ANSI on)", "history": s.history(), "candidate": cand, "observed": "panic"})); }
                                    }
                                    Ok(pe) => {
                                        // the encoder of the dependency, called directly on the candidate (not through riti)
                                        let want = std::panic::catch_unwind(|| poriborton::bijoy2000::unicode_to_bijoy(&cand));
                                        if let Ok(w) = want { if w != pe && reported < 3 { reported += 1; o.fail(json!({"clause": "C16 pre-edit == Bijoy encoding of the candidate", "history": s.history(), "candidate": cand, "observed": pe, "expected": w})); } }
                                        if pe.chars().any(|c| ('\u{0980}'..='\u{09FF}').contains(&c)) && reported < 3 { reported += 1; o.fail(json!({"clause": "C16 no Bengali-block code point in ANSI pre-edit text", "history": s.history(), "candidate": cand, "observed": pe})); }
                                    }
                                }
                            }
                            s.finish();
                            o.nontrivial += 1;
                        }}
                    }
                }
            }
            o.domain = format!("{}; key sweep with ANSI on (read-outs of texts containing U+09C4 matched the recorded known finding {} times)", o.domain, known);
        }
        // joiner sequences (ZWJ / ZWNJ / hasanta / ya-phala around ক র য), where the Bijoy encoding depends on the joiner: every key
        // string of length <= 3 over eight synthetic-layout keys (+ the same followed by া), list and single-string mode, and the
        // phonetic spellings of র‍্য; the pre-edit text of every candidate is the dependency's encoding of exactly that candidate
        {
            let keys = ['t', 'u', 's', '`', '\\', 'w', 'y', 'p'];
            let mut strs: Vec<String> = Vec::new();
            for a in keys { strs.push(a.to_string()); for b in keys { strs.push(format!("{}{}", a, b)); for c in keys { strs.push(format!("{}{}{}", a, b, c)); strs.push(format!("{}{}{}p", a, b, c)); } } }
            let mut reported = 0;
            let mut with_joiner = 0u64;
            for list in [false, true] {
                let mut cfgv = fixed_cfg(json!({"fixed_suggestion": list, "ansi": true}));
                cfgv["layout"] = json!(crate::verif_driver::synthetic_layout());
                let mut s = Sess::new(cfgv);
                for k in strs.iter() {
                    o.cases += 1;
                    let sg = match s.typ(k) { Some(x) => x, None => continue };
                    let n = if sg.is_empty() { 0 } else if sg.is_lonely() { 1 } else { sg.len() };
                    for i in 0..n {
                        let cand = if sg.is_lonely() { sg.get_lonely_suggestion().to_string() } else { sg.get_suggestions()[i].clone() };
                        if cand.contains('\u{09C4}') { continue; }
                        let want = match std::panic::catch_unwind(|| poriborton::bijoy2000::unicode_to_bijoy(&cand)) { Ok(w) => w, Err(_) => continue };
                        if cand.contains('\u{200D}') || cand.contains('\u{200C}') { with_joiner += 1; }
                        match std::panic::catch_unwind(std::panic::AssertUnwindSafe(|| sg.get_pre_edit_text(i))) {
                            Ok(pe) => if pe != want && reported < 4 { reported += 1; o.fail(json!({"clause": "C16 pre-edit == Bijoy encoding of the candidate (joiner sequences)", "history": s.history(), "candidate": cand, "observed": pe, "expected": want})); },
                            Err(_) => if reported < 4 { reported += 1; o.fail(json!({"clause": "C02 C16 every index below the length can be read as pre-edit text (ANSI on, joiner sequences)", "history": s.history(), "candidate": cand, "observed": "panic"})); },
                        }
                    }
                    s.finish();
                    o.nontrivial += 1;
                }
            }
            for sugg in [false, true] { for w in ["rZab", "ryab", "r`yab", "rZa", "kZ", "k`"] {
                o.cases += 1;
                let mut s = Sess::new(phon_cfg(json!({"ansi": true, "phonetic_suggestion": sugg})));
                let sg = match s.typ(w) { Some(x) => x, None => continue };
                let n = if sg.is_empty() { 0 } else if sg.is_lonely() { 1 } else { sg.len() };
                for i in 0..n {
                    let cand = if sg.is_lonely() { sg.get_lonely_suggestion().to_string() } else { sg.get_suggestions()[i].clone() };
                    let want = match std::panic::catch_unwind(|| poriborton::bijoy2000::unicode_to_bijoy(&cand)) { Ok(w) => w, Err(_) => continue };
                    if cand.contains('\u{200D}') || cand.contains('\u{200C}') { with_joiner += 1; }
                    match std::panic::catch_unwind(std::panic::AssertUnwindSafe(|| sg.get_pre_edit_text(i))) {
                        Ok(pe) => if pe != want { o.fail(json!({"clause": "C16 pre-edit == Bijoy encoding of the candidate (joiner sequences, phonetic)", "history": s.history(), "candidate": cand, "observed": pe, "expected": want})); },
                        Err(_) => o.fail(json!({"clause": "C02 C16 every index below the length can be read as pre-edit text (ANSI on, joiner sequences, phonetic)", "history": s.history(), "candidate": cand, "observed": "panic"})),
                    }
                }
                o.nontrivial += 1;
            } }
            o.sample(json!({"joiner_sequences": strs.len(), "candidates_with_a_joiner_compared": with_joiner}));
            if with_joiner == 0 { o.fail(json!({"clause": "C16 (machinery) no candidate with a joiner was produced by the joiner corpus", "history": {}})); }
        }
        // a choice learned outside ANSI mode (an emoji, the raw English text) and ANSI switched on afterwards -- on the live
        // context and in a new one over the same user files: nothing that cannot be encoded is offered
        let bad = |x: &String| x.chars().any(|c| c.is_ascii_alphabetic()) || x.chars().any(|c| (c as u32) >= 0x1F000 || ((c as u32) >= 0x2600 && (c as u32) < 0x2800));
        for (w, later) in [("cool", "coolgulo"), ("smile", "smile")] {
            for pick_english in [false, true] {
                o.cases += 1;
                crate::verif_driver::reset_user_files();
                let off = phon_cfg(json!({"include_english": true, "ansi": false}));
                let on = phon_cfg(json!({"include_english": true, "ansi": true}));
                let mut s = Sess::new(off.clone());
                let sg = s.typ(w).unwrap();
                let list = texts(&sg);
                let idx = if pick_english { list.iter().position(|x| x == w) } else { list.iter().position(|x| bad(x) && x != w) };
                let idx = match idx { Some(i) => i, None => { s.finish(); continue; } };
                s.commit(idx);
                s.update(&{ let mut c = on.clone(); c["phonetic_suggestion"] = json!(true); c["smart_quote"] = json!(false); c });
                let mut fresh = Sess::new(on.clone());
                for t in [w, later] {
                    for (name, ctx) in [("live context after update_engine", &mut s), ("new context over the same user files", &mut fresh)] {
                        let g = ctx.typ(t).unwrap(); ctx.finish();
                        let l = texts(&g);
                        if l.iter().any(|x| bad(x)) {
                            let mut h = ctx.history(); h["note"] = json!(format!("{}; the learned choice was made in this user directory with ANSI off: type {:?}, commit index {}", name, w, idx));
                            o.fail(json!({"clause": "C16 ANSI: no emoji, emoticon-derived or raw English candidate (also when such a choice was learned before ANSI was switched on)", "history": h, "observed": l}));
                        }
                        for i in 0..l.len() { if g.get_pre_edit_text(i) != poriborton::bijoy2000::unicode_to_bijoy(&l[i]) { o.fail(json!({"clause": "C16 pre-edit == Bijoy encoding of the candidate", "history": ctx.history()})); } }
                    }
                }
                o.nontrivial += 1;
            }
        }
        crate::verif_driver::reset_user_files();
        o.done()
    }

    /// C18: every emoticon / emoji name of the tables (tables parsed from the emojicon sources by tools/gen_tables.py)
    pub(crate) fn emoji_tables(bound: usize, shard: usize, nshards: usize) -> Value {
        let mut o = Out::new("emoji_tables", bound, "every emoticon and every English emoji name of the emojicon tables that is typeable, bare (quick: every 4th) and wrapped in parentheses, phonetic mode; every Bengali emoji name (quick: every 4th), bare and in parentheses, typed in fixed mode through a layout file generated for the purpose (one key slot per code point of the names; helpers off) whenever the composition equals the name; expected emoji read from the emojicon sources by tools/gen_tables.py, not from the engine's look-up functions");
        let tables: Value = serde_json::from_str(&std::fs::read_to_string(crate::verif_driver::gen_file("emoji_tables.json")).unwrap_or("{}".into())).unwrap_or(json!({}));
        let data = crate::data::Data::new(&make_config(&phon_cfg(json!({}))));
        let step = if bound >= 2 { 1 } else { 4 };
        let mut idx = 0usize;
        let cfgv = phon_cfg(json!({}));
        let typeable = |s: &str| s.chars().all(|c| c.is_ascii_graphic() && crate::verif_driver::has_key(c));
        // EVERY typeable emoticon (both tiers), in one long-lived context per English setting: no candidate text occurs twice (C07),
        // the emoji is offered and the literal text stays available (C18)
        if shard == 0 {
            for eng in [false, true] {
                let mut s = Sess::new(phon_cfg(json!({"include_english": eng})));
                for e in tables["emoticons"].as_array().cloned().unwrap_or_default() {
                    let e = e.as_str().unwrap().to_string();
                    if !typeable(&e) { continue; }
                    let emoji = match tables["emoticon_map"][&e].as_str() { Some(x) => x.to_string(), None => continue };
                    o.cases += 1;
                    let sg = s.typ(&e).unwrap(); s.finish();
                    let list = texts(&sg);
                    for i in 0..list.len() { for j in 0..i { if list[i] == list[j] {
                        o.fail(json!({"clause": "C07 no candidate text occurs twice (emoticon typed)", "emoticon": e, "history": {"config": s.cfgv, "events": [{"type": e}]}, "observed": list}));
                    } } }
                    if !list.contains(&emoji) || !list.contains(&e) { o.fail(json!({"clause": "C18 emoticon offers its emoji and keeps the literal text", "emoticon": e, "history": {"config": s.cfgv, "events": [{"type": e}]}, "observed": list, "expected": emoji})); }
                    o.nontrivial += 1;
                }
            }
        }
        for e in tables["emoticons"].as_array().cloned().unwrap_or_default() {
            let e = e.as_str().unwrap().to_string();
            idx += 1;
            if idx % step != 0 || (idx / step) % nshards != shard || !typeable(&e) { continue; }
            o.cases += 1;
            let emoji = match tables["emoticon_map"][&e].as_str() { Some(x) => x.to_string(), None => continue };
            let mut s = Sess::new(cfgv.clone());
            let sg = s.typ(&e).unwrap();
            let list = texts(&sg);
            if !list.contains(&emoji) { o.fail(json!({"clause": "C18 emoticon offers its emoji", "history": s.history(), "observed": list, "expected": emoji})); }
            if !list.contains(&e) { o.fail(json!({"clause": "C18 literal emoticon text stays available", "history": s.history(), "observed": list})); }
            o.nontrivial += 1;
        }
        for n in tables["names"].as_array().cloned().unwrap_or_default() {
            let n = n.as_str().unwrap().to_string();
            idx += 1;
            // names of an unusual shape (anything but letters and digits) are never sampled away
            let plain = n.chars().all(|c| c.is_ascii_alphanumeric());
            if (plain && idx % step != 0) || (idx / step) % nshards != shard || !typeable(&n) { continue; }
            // a table key is a word when the split leaves it whole (`t-rex`, `e-mail`: punctuation inside a word stays in the word part);
            // keys the phonetic parser treats specially (backtick) or that are pure punctuation are skipped
            { let cs: Vec<char> = n.chars().collect(); let (_, w, _) = split::split_exec(&cs, false); if w != n || n.contains('`') { continue; } }
            if tables["emoticon_map"].get(&n).is_some() { continue; }
            let emojis: Vec<String> = match tables["names_map"][&n].as_array() { Some(a) => a.iter().map(|x| x.as_str().unwrap().to_string()).collect(), None => continue };
            for wrapped in [false, true] {
                o.cases += 1;
                let text = if wrapped { format!("({})", n) } else { n.clone() };
                let mut s = Sess::new(cfgv.clone());
                let sg = s.typ(&text).unwrap();
                let list = texts(&sg);
                let want: Vec<String> = emojis.iter().map(|x| if wrapped { format!("({})", x) } else { x.clone() }).collect();
                let pos: Vec<Option<usize>> = want.iter().map(|x| list.iter().position(|y| y == x)).collect();
                if pos.iter().any(|p| p.is_none()) || pos.windows(2).any(|w| w[0] >= w[1]) {
                    o.fail(json!({"clause": "C18 emoji name offers all its emoji, in table order, wrapped like the word", "history": s.history(), "observed": list, "expected": want}));
                }
                o.nontrivial += 1;
            }
            o.sample(json!({"name": n, "emoji": emojis}));
        }
        // Bengali emoji names, fixed mode.  A layout file is generated: every code point of the names (and the two parentheses) gets
        // its own key slot, so every name can be typed code point by code point; helpers are off.  Where the composition the engine
        // reports differs from the name (the fixed method re-arranges some sequences) the name is skipped -- and counted.
        {
            let kt: Value = serde_json::from_str(&std::fs::read_to_string(crate::verif_driver::gen_file("keytable.json")).unwrap_or("[]".into())).unwrap_or(json!([]));
            let mains: Vec<(u16, String)> = kt.as_array().cloned().unwrap_or_default().iter().filter(|r| r["kind"] == "main").map(|r| (r["code"].as_u64().unwrap() as u16, r["name"].as_str().unwrap().to_string())).collect();
            let bn_code_char: std::collections::HashMap<u16, char> = kt.as_array().cloned().unwrap_or_default().iter().filter_map(|r| Some((r["code"].as_u64()? as u16, r["char"].as_str()?.chars().next()?))).collect();
            let bn = tables["bengali_map"].as_object().cloned().unwrap_or_default();
            let mut cps: std::collections::BTreeSet<char> = bn.keys().flat_map(|k| k.chars()).collect();
            cps.insert('('); cps.insert(')');
            let mut raw: Value = serde_json::from_str(&std::fs::read_to_string(crate::verif_driver::synthetic_layout()).unwrap()).unwrap();
            let mut slot: std::collections::HashMap<char, (u16, u8)> = std::collections::HashMap::new();
            {
                let lay = raw["layout"].as_object_mut().unwrap();
                for (_, name) in mains.iter() { for m in ["Normal", "AltGr"] { lay.insert(format!("Key_{}_{}", name, m), json!("")); } }
                let mut it = cps.iter();
                'fill: for m in [0u8, 2u8] { for (code, name) in mains.iter() {
                    match it.next() { Some(c) => { lay.insert(format!("Key_{}_{}", name, if m == 2 { "AltGr" } else { "Normal" }), json!(c.to_string())); slot.insert(*c, (*code, m)); } None => break 'fill }
                } }
            }
            let dir = crate::verif_driver::user_dir();
            std::fs::create_dir_all(&dir).unwrap();
            let path = format!("{}/verif-layout-bn-names-{}.json", dir, shard);
            std::fs::write(&path, serde_json::to_string(&raw).unwrap()).unwrap();
            let fcfg = json!({"layout": path, "database_dir": crate::verif_driver::data_dir(), "phonetic_suggestion": false, "include_english": false,
                "fixed_suggestion": true, "fixed_vowel": false, "fixed_chandra": false, "fixed_kar": false, "fixed_old_reph": false,
                "fixed_numpad": true, "fixed_kar_order": false, "ansi": false, "smart_quote": false});
            let mut names: Vec<&String> = bn.keys().collect();
            names.sort();
            let (mut reached, mut skipped) = (0usize, 0usize);
            let mut bidx = 0usize;
            if slot.len() == cps.len() {
                for n in names {
                    bidx += 1;
                    if bidx % step != 0 || (bidx / step) % nshards != shard { continue; }
                    let emojis: Vec<String> = bn[n].as_array().unwrap().iter().map(|x| x.as_str().unwrap().to_string()).collect();
                    // a table key made of punctuation ("#", "*") is not a word: the split puts it outside the word part
                    { let cs: Vec<char> = n.chars().collect(); let (_, w, _) = split::split_exec(&cs, true); if w != *n { skipped += 1; continue; } }
                    for wrapped in [false, true] {
                        let text = if wrapped { format!("({})", n) } else { n.clone() };
                        // raw keys that happen to spell an emoticon: the emoticon wins over the name (C18), not this sweep's subject
                        { let raw_keys: String = text.chars().map(|c| bn_code_char.get(&slot[&c].0).cloned().unwrap_or('?')).collect(); if tables["emoticon_map"].get(raw_keys.as_str()).is_some() { skipped += 1; continue; } }
                        let mut s = Sess::new(fcfg.clone());
                        let mut last = None;
                        for c in text.chars() { let (code, m) = slot[&c]; last = Some(s.code_mod(code, m, 0)); }
                        let sg = match last { Some(x) => x, None => continue };
                        if sg.is_lonely() || sg.get_auxiliary_text() != text { skipped += 1; s.finish(); continue; }
                        o.cases += 1;
                        reached += 1;
                        let list = texts(&sg);
                        let want: Vec<String> = emojis.iter().map(|x| if wrapped { format!("({})", x) } else { x.clone() }).collect();
                        let pos: Vec<Option<usize>> = want.iter().map(|x| list.iter().position(|y| y == x)).collect();
                        // the list is cut at nine candidates: then the emoji offered are the first ones of the table entry
                        let present: Vec<usize> = pos.iter().flatten().cloned().collect();
                        let all_or_cut = pos.iter().all(|p| p.is_some()) || (list.len() >= 9 && pos.iter().skip_while(|p| p.is_some()).all(|p| p.is_none()) && !present.is_empty());
                        if !all_or_cut || present.windows(2).any(|w| w[0] >= w[1]) {
                            o.fail(json!({"clause": "C18 Bengali emoji name (fixed mode) offers all its emoji, in table order, wrapped like the word", "name": n, "history": s.history(), "observed": list, "expected": want}));
                        }
                        s.finish();
                        o.nontrivial += 1;
                    }
                }
            }
            let _ = std::fs::remove_file(&path);
            o.sample(json!({"bengali_names_reached": reached, "bengali_names_skipped_composition_differs": skipped, "code_points": cps.len(), "key_slots_used": slot.len()}));
            if reached == 0 { o.fail(json!({"clause": "C18 (machinery) no Bengali emoji name could be typed through the generated layout", "history": {"layout": path}})); }
        }
        o.done()
    }

    /// a layout file generated for the purpose: every code point of `cps` gets its own key slot (plain plane first, then AltGr);
    /// returns the path and the slot of every code point, or None when there are more code points than slots
    pub(crate) fn generated_layout(cps: &std::collections::BTreeSet<char>, tag: &str) -> Option<(String, std::collections::HashMap<char, (u16, u8)>)> {
        let kt: Value = serde_json::from_str(&std::fs::read_to_string(crate::verif_driver::gen_file("keytable.json")).unwrap_or("[]".into())).unwrap_or(json!([]));
        let mains: Vec<(u16, String)> = kt.as_array().cloned().unwrap_or_default().iter().filter(|r| r["kind"] == "main").map(|r| (r["code"].as_u64().unwrap() as u16, r["name"].as_str().unwrap().to_string())).collect();
        let mut raw: Value = serde_json::from_str(&std::fs::read_to_string(crate::verif_driver::synthetic_layout()).unwrap()).unwrap();
        let mut slot: std::collections::HashMap<char, (u16, u8)> = std::collections::HashMap::new();
        {
            let lay = raw["layout"].as_object_mut().unwrap();
            for (_, name) in mains.iter() { for m in ["Normal", "AltGr"] { lay.insert(format!("Key_{}_{}", name, m), json!("")); } }
            let mut it = cps.iter();
            'fill: for m in [0u8, 2u8] { for (code, name) in mains.iter() {
                match it.next() { Some(c) => { lay.insert(format!("Key_{}_{}", name, if m == 2 { "AltGr" } else { "Normal" }), json!(c.to_string())); slot.insert(*c, (*code, m)); } None => break 'fill }
            } }
        }
        if slot.len() != cps.len() { return None; }
        let dir = crate::verif_driver::user_dir();
        std::fs::create_dir_all(&dir).unwrap();
        let path = format!("{}/verif-layout-{}.json", dir, tag);
        std::fs::write(&path, serde_json::to_string(&raw).unwrap()).unwrap();
        Some((path, slot))
    }

    /// C15 / C16 / C02, data-exhaustive: the words of dictionary.json typed in fixed mode through a generated layout (helpers off).
    /// Oracle independent of the engine: the dictionary file itself, an edit-distance function, the emojicon tables.
    pub(crate) fn fixed_dict(bound: usize, shard: usize, nshards: usize) -> Value {
        let mut o = Out::new("fixed_dict", bound, "words of dictionary.json typed code point by code point in fixed mode through a layout file generated for the purpose (thorough: every word; quick: every 200th word + every word that contains a code point occurring in fewer than 300 words), suggestions on, ANSI off and on: first candidate = the word, no candidate twice, at most nine, the others are dictionary words beginning with it in non-decreasing edit distance, emoji from the emojicon sources; ANSI: pre-edit text = the dependency's encoding");
        let table: std::collections::HashMap<String, Vec<String>> = serde_json::from_str(&std::fs::read_to_string(format!("{}/dictionary.json", crate::verif_driver::data_dir())).unwrap()).unwrap();
        let mut all: Vec<String> = table.values().flatten().cloned().collect();
        all.sort(); all.dedup();
        let dict: std::collections::HashSet<&String> = all.iter().collect();
        let mut freq: std::collections::HashMap<char, usize> = std::collections::HashMap::new();
        for w in all.iter() { let cs: std::collections::BTreeSet<char> = w.chars().collect(); for c in cs { *freq.entry(c).or_insert(0) += 1; } }
        let cps: std::collections::BTreeSet<char> = freq.keys().cloned().collect();
        let tables: Value = serde_json::from_str(&std::fs::read_to_string(crate::verif_driver::gen_file("emoji_tables.json")).unwrap_or("{}".into())).unwrap_or(json!({}));
        let (path, slot) = match generated_layout(&cps, &format!("dict-{}", shard)) { Some(x) => x, None => { o.fail(json!({"clause": "C15 (machinery) more code points in the dictionary than key slots", "history": {}})); return o.done(); } };
        let code_char: std::collections::HashMap<u16, char> = { let kt: Value = serde_json::from_str(&std::fs::read_to_string(crate::verif_driver::gen_file("keytable.json")).unwrap_or("[]".into())).unwrap_or(json!([]));
            kt.as_array().cloned().unwrap_or_default().iter().filter_map(|r| Some((r["code"].as_u64()? as u16, r["char"].as_str()?.chars().next()?))).collect() };
        let step = if bound >= 2 { 1 } else { 200 };
        let clean = |x: &str| -> String { x.chars().filter(|c| !"|()[]{}^$*+?.~!@#%&-_='\";<>/\\,:`\u{0964}\u{200C}\u{2018}\u{2019}\u{201C}\u{201D}".contains(*c)).collect() };
        let mut reported = 0;
        let (mut reached, mut skipped) = (0u64, 0u64);
        for ansi in [false, true] {
            let cfgv = json!({"layout": path, "database_dir": crate::verif_driver::data_dir(), "phonetic_suggestion": false, "include_english": false,
                "fixed_suggestion": true, "fixed_vowel": false, "fixed_chandra": false, "fixed_kar": false, "fixed_old_reph": false,
                "fixed_numpad": true, "fixed_kar_order": false, "ansi": ansi, "smart_quote": false});
            let mut s = Sess::new(cfgv.clone());
            for (k, w) in all.iter().enumerate() {
                let rare = w.chars().any(|c| freq[&c] < 300);
                if !(rare || k % step == 0) || k % nshards != shard { continue; }
                if ansi && !rare && (k / step) % 4 != 0 && bound < 2 { continue; }
                // three entries end in a full stop (মি.): the split takes it for trailing punctuation, the candidates are wrapped -- not words
                { let cs: Vec<char> = w.chars().collect(); let (_, ww, _) = split::split_exec(&cs, true); if ww != *w { skipped += 1; continue; } }
                // the session is kept short: a new context every 500 words keeps the recorded history replayable
                if s.events.len() > 4000 { s = Sess::new(cfgv.clone()); }
                let mut last = None;
                for c in w.chars() { let (code, m) = slot[&c]; last = Some(s.code_mod(code, m, 0)); }
                let sg = match last { Some(x) => x, None => continue };
                if sg.is_lonely() || sg.get_auxiliary_text() != w.as_str() { skipped += 1; s.finish(); continue; }
                o.cases += 1;
                reached += 1;
                let list = texts(&sg);
                let mut bad: Vec<String> = Vec::new();
                if list.is_empty() || &list[0] != w { bad.push("C15 the first candidate is the composed text itself".into()); }
                if list.len() > 9 { bad.push("C15 at most nine candidates".into()); }
                for i in 0..list.len() { for j in 0..i { if list[i] == list[j] { bad.push("C15 no candidate repeats".into()); } } }
                // the raw keys of the generated layout may happen to spell an emoticon (ট + ু on the keys `=` `z` ...): then its emoji
                // is offered instead of the emoji of a Bengali name (C18: the emoticon typed wins)
                let raw_keys: String = w.chars().map(|c| code_char.get(&slot[&c].0).cloned().unwrap_or('?')).collect();
                let emojis: Vec<String> = match tables["emoticon_map"][raw_keys.as_str()].as_str() {
                    Some(e) => vec![e.to_string()],
                    None => tables["bengali_map"][w.as_str()].as_array().map(|a| a.iter().map(|x| x.as_str().unwrap().to_string()).collect()).unwrap_or_default(),
                };
                let mut prev = 0usize;
                for (i, x) in list.iter().enumerate() {
                    if i == 0 { continue; }
                    if emojis.contains(x) { if ansi { bad.push("C16 ANSI: no emoji candidate".into()); } continue; }
                    if !dict.contains(x) { bad.push("C15 every other non-emoji candidate is a dictionary word".into()); }
                    if !clean(x).starts_with(&clean(w)) { bad.push("C15 candidates begin with the typed word".into()); }
                    let d = edit_distance::edit_distance(w, x);
                    if d < prev { bad.push("C15 non-emoji candidates in non-decreasing edit distance".into()); }
                    prev = d;
                }
                if !ansi { for e in emojis.iter().take(if list.len() >= 9 { 0 } else { emojis.len() }) { if !list.contains(e) { bad.push("C18 a Bengali emoji name offers all its emoji".into()); } } }
                for i in 0..list.len() {
                    let want = if ansi { match std::panic::catch_unwind(|| poriborton::bijoy2000::unicode_to_bijoy(&list[i])) { Ok(x) => x, Err(_) => continue } } else { list[i].clone() };
                    match std::panic::catch_unwind(std::panic::AssertUnwindSafe(|| sg.get_pre_edit_text(i))) {
                        Ok(pe) => {
                            if pe != want { bad.push("C16 the pre-edit text is the candidate (ANSI: its Bijoy encoding)".into()); }
                            if ansi && pe.chars().any(|c| ('\u{0980}'..='\u{09FF}').contains(&c)) { bad.push("C16 no Bengali-block code point in an ANSI pre-edit text".into()); }
                        }
                        Err(_) => bad.push("C02 C16 every index below the length can be read as pre-edit text".into()),
                    }
                }
                bad.sort(); bad.dedup();
                for b in bad { if reported < 6 { reported += 1; o.fail(json!({"clause": b, "word": w, "ansi": ansi, "history": {"config": cfgv, "events": w.chars().map(|c| json!({"code": slot[&c].0, "mod": slot[&c].1})).collect::<Vec<_>>() }, "observed": list})); } }
                s.finish();
                o.nontrivial += 1;
            }
        }
        let _ = std::fs::remove_file(&path);
        o.sample(json!({"dictionary_words": all.len(), "words_reached": reached, "skipped_composition_differs": skipped, "code_points": cps.len()}));
        if reached == 0 { o.fail(json!({"clause": "C15 (machinery) no dictionary word could be typed through the generated layout", "history": {}})); }
        o.done()
    }

    /// C08: completeness and soundness of suffix forms
    pub(crate) fn suffix_forms(bound: usize) -> Value {
        let mut o = Out::new("suffix_forms", bound, "base words x every suffix key of suffix.json (quick: every 9th; plus the longest keys), bare and wrapped: every candidate of the base alone is offered joined");
        let cfgv = phon_cfg(json!({}));
        let suffixes: std::collections::BTreeMap<String, String> = serde_json::from_str(&std::fs::read_to_string(format!("{}/suffix.json", crate::verif_driver::data_dir())).unwrap()).unwrap();
        let mut keys: Vec<&String> = suffixes.keys().collect();
        keys.sort_by_key(|k| std::cmp::Reverse(k.len()));
        let step = if bound >= 2 { 1 } else { 9 };
        let parser = Parser::new_phonetic();
        use crate::utility::Utility;
        let join = |base: &str, suffix: &str| -> String {
            let rmc = base.chars().last().unwrap_or_default();
            let lmc = suffix.chars().next().unwrap_or_default();
            let mut w = base.to_string();
            if rmc.is_vowel() && lmc.is_kar() { w.push('\u{09DF}'); }
            else if rmc == '\u{09CE}' { w.pop(); w.push('\u{09A4}'); }
            else if rmc == '\u{0982}' { w.pop(); w.push('\u{0999}'); }
            w.push_str(suffix);
            w
        };
        let dict: std::collections::HashSet<String> = {
            let t: std::collections::HashMap<String, Vec<String>> = serde_json::from_str(&std::fs::read_to_string(format!("{}/dictionary.json", crate::verif_driver::data_dir())).unwrap()).unwrap();
            t.into_values().flatten().collect()
        };
        let data = crate::data::Data::new(&make_config(&cfgv));
        // a base that already ends in the letters of the suffix (khata + ta, pata + ta, mot + o ...): the base of the split is
        // still the word minus ONE suffix
        for (base, k) in [("khata", "ta"), ("pata", "ta"), ("mota", "ta"), ("ta", "ta"), ("bati", "ti"), ("koro", "o"), ("jete", "te")] {
            if !suffixes.contains_key(k) { continue; }
            o.cases += 1;
            let ac = data.search_corrected(base).map(|c| parser.convert(c));
            let mut s = Sess::new(cfgv.clone());
            let direct = { let sg = s.typ(base).unwrap(); s.finish(); texts(&sg) };
            let word = format!("{}{}", base, k);
            let sg = s.typ(&word).unwrap(); s.finish();
            let list = texts(&sg);
            for d in &direct {
                if !dict.contains(d) && Some(d) != ac.as_ref() { continue; }
                let j = join(d, &suffixes[k]);
                if !list.contains(&j) { o.fail(json!({"clause": "C08 every direct candidate of the base is offered joined with the suffix (base ending in the letters of the suffix)", "history": s.history(), "word": word, "observed": list, "expected": j})); break; }
            }
            o.nontrivial += 1;
        }
        for base in ["bisoy", "kotha", "hotat", "ebong", "academy"] {
            let ac = data.search_corrected(base).map(|c| parser.convert(c));
            let mut s = Sess::new(cfgv.clone());
            let direct = { let sg = s.typ(base).unwrap(); s.finish(); texts(&sg) };
            for (i, k) in keys.iter().enumerate() {
                if i >= 6 && i % step != 0 { continue; }
                o.cases += 1;
                let word = format!("{}{}", base, k);
                let sg = s.typ(&word).unwrap(); s.finish();
                let list = texts(&sg);
                for d in &direct {
                    // direct candidates of the base = dictionary words (and its auto-correct entry); other entries of the
                    // base's own list are suffix-built forms, the transliteration or emoji
                    if !dict.contains(d) && Some(d) != ac.as_ref() { continue; }
                    let j = join(d, &suffixes[*k]);
                    if !list.contains(&j) { o.fail(json!({"clause": "C08 every direct candidate of the base is offered joined with the suffix", "history": s.history(), "word": word, "observed": list, "expected": j})); break; }
                }
                o.nontrivial += 1;
            }
            o.sample(json!({"base": base, "direct": direct}));
        }
        let ac_file: std::collections::BTreeMap<String, String> = serde_json::from_str(&std::fs::read_to_string(format!("{}/autocorrect.json", crate::verif_driver::data_dir())).unwrap()).unwrap();
        let ac_of = |w: &str| -> Option<String> { ac_file.get(w).map(|c| parser.convert(c)) };
        // C08 soundness against the dictionary FILE (parsed here, not through the engine's loader): every Bengali candidate is a word of
        // dictionary.json code point for code point (the 21 words spelled with a ZWNJ included), the transliteration, the converted
        // auto-correct entry, or a suffix-built form of a dictionary word
        {
            let oracle = super::api::Oracle::new();
            let ac_map: std::collections::BTreeMap<String, String> = serde_json::from_str(&std::fs::read_to_string(format!("{}/autocorrect.json", crate::verif_driver::data_dir())).unwrap()).unwrap();
            for w in ["allah", "shah", "omrah", "bismillah", "allahr", "shaher", "omrahte", "inshaallah", "kotha", "kothagulo", "bisoy", "amar", "hotat", "rik"] {
                o.cases += 1;
                let mut s = Sess::new(cfgv.clone());
                let sg = s.typ(w).unwrap(); s.finish();
                let translit = parser.convert(w);
                let acv = ac_map.get(w).map(|c| parser.convert(c));
                for c in texts(&sg) {
                    let bengali = c.chars().any(|x| ('\u{0980}'..='\u{09FF}').contains(&x));
                    if !bengali || c == translit || Some(&c) == acv.as_ref() || dict.contains(&c) || oracle.maybe_suffix_built(w, &c) { continue; }
                    o.fail(json!({"clause": "C08 every Bengali candidate is a word of dictionary.json, the transliteration, the auto-correct entry or a suffix-built form of a dictionary word", "history": s.history(), "observed": c, "code_points": c.chars().map(|x| format!("{:04X}", x as u32)).collect::<Vec<_>>()}));
                    break;
                }
                o.nontrivial += 1;
            }
        }
        // the dictionary search itself (include_from_dictionary: the one function whose contract is assumed), against an oracle that
        // shares nothing with it but the two dependencies: the pattern okkhor builds for the typed word, compiled by the regex crate,
        // matched against the words of dictionary.json: soundness (C08, first sentence) -- every offered dictionary word that is not
        // a suffix-built form matches the pattern of the typed word
        {
            let mut not_offered = 0usize;
            let oracle = super::api::Oracle::new();
            let rp = Parser::new_regex();
            let mut all: Vec<&String> = dict.iter().collect();
            all.sort();
            let words: Vec<&str> = if bound >= 2 { vec!["ami", "amar", "kotha", "bisoy", "sesh", "hotat", "ebong", "rik", "allah", "shah", "xen", "qu", "fol", "vab", "wa", "zonmo", "jol", "gan", "chele", "thik", "dhaka", "pani", "nodi", "oi", "ou", "uu", "e", "i", "o", "u", "a", "koro", "lekha", "mon", "tumi", "se", "ora", "ei", "ki", "na"] }
                else { vec!["ami", "kotha", "sesh", "rik", "shah", "xen", "qu", "fol", "vab", "wa", "zonmo", "chele", "dhaka", "oi", "e", "o", "u", "koro", "na"] };
            for w in words {
                o.cases += 1;
                let pat = rp.convert_regex(w);
                let rgx = match regex::Regex::new(&pat) { Ok(r) => r, Err(_) => continue };
                let mut s = Sess::new(cfgv.clone());
                let sg = s.typ(w).unwrap(); s.finish();
                let list = texts(&sg);
                // (completeness is not part of any property: the engine searches only the tables its first-letter table names -- for
                // "oi" the matches ই ঈ ি of other tables are not offered on the unchanged tree; the count is recorded, not judged)
                not_offered += all.iter().filter(|x| rgx.is_match(x) && !list.contains(x)).count();
                let translit = parser.convert(w);
                for c in list.iter() {
                    if !dict.contains(c) || *c == translit || rgx.is_match(c) || oracle.maybe_suffix_built(w, c) { continue; }
                    if ac_of(w).as_ref() == Some(c) { continue; }
                    o.fail(json!({"clause": "C08 every offered dictionary word matches the pattern of the typed word or is a suffix-built form (dictionary search sound)", "history": s.history(), "observed": c}));
                    break;
                }
                o.nontrivial += 1;
            }
            o.sample(json!({"dictionary_search_oracle": "okkhor pattern + regex crate over dictionary.json", "matches_in_other_tables_not_offered": not_offered}));
        }
        // C01 (no blow-up): stacked suffix keys ("kor" + "er" x n, "ami" + "re" x n): the list never holds more than the direct
        // hits of the prefixes of the word, one auto-correct entry each, the transliteration and the emoji
        let oracle = super::api::Oracle::new();
        for (stem, sfx) in [("kor", "er"), ("ami", "re"), ("bisoy", "e")] {
            o.cases += 1;
            let mut s = Sess::new(cfgv.clone());
            let mut word = stem.to_string();
            let _ = s.typ(stem);
            let reps = if bound >= 2 { 10 } else { 7 };
            let t0 = std::time::Instant::now();
            for _ in 0..reps {
                let sg = s.typ(sfx).unwrap();
                word.push_str(sfx);
                let limit: usize = (1..=word.len()).map(|i| oracle.hits(&word[..i]).len() + 1).sum::<usize>() + 12;
                if INTERNAL && texts(&sg).len() > limit {
                    o.fail(json!({"clause": "C01 no unbounded blow-up: the candidate list is bounded by the direct hits of the prefixes of the word", "history": s.history(), "observed": texts(&sg).len(), "expected": format!("<= {}", limit)}));
                    break;
                }
                if t0.elapsed().as_secs() > 60 {
                    o.fail(json!({"clause": "C01 no unbounded blow-up in time (stacked suffix keys)", "history": s.history(), "observed": format!("{} s", t0.elapsed().as_secs())}));
                    break;
                }
            }
            o.nontrivial += 1;
        }
        o.done()
    }
}

// ---------------------------------------------------------------------------------------------
/// C12 / C14 / C06 (fixed): an executable model written from the statements, compared step by step
mod rules {
    use super::*;
    use crate::utility::Utility;

    const H: char = '\u{09CD}';
    fn to_vowel(k: char) -> Option<char> {
        Some(match k { 'া' => 'আ', 'ি' => 'ই', 'ী' => 'ঈ', 'ু' => 'উ', 'ূ' => 'ঊ', 'ৃ' => 'ঋ', 'ে' => 'এ', 'ৈ' => 'ঐ', 'ো' => 'ও', 'ৌ' => 'ঔ', _ => return None })
    }
    fn marks(c: char) -> bool { "`~!@#$%^+*-_=+\\|\"/;:,./?><()[]{}".contains(c) }
    /// the C12 priority chain (old vowel-sign order off)
    pub(crate) fn c12(buf: &str, value: &str, vowel: bool, chandra: bool, trad: bool) -> String {
        let b: Vec<char> = buf.chars().collect();
        let v: Vec<char> = value.chars().collect();
        let rmc = b.last().copied().unwrap_or('\0');
        let mut out = buf.to_string();
        if value == "\u{09CD}\u{09AF}" {
            if rmc == 'র' && !(b.len() >= 2 && b[b.len() - 2] == H) { out.push('\u{200D}'); }
            out.push_str(value);
            return out;
        }
        if !v.is_empty() && v[0].is_kar() {
            let k = v[0];
            if vowel && (b.is_empty() || rmc.is_vowel() || marks(rmc)) { out.push(to_vowel(k).unwrap_or(k)); }
            else if chandra && rmc == '\u{0981}' { out.pop(); out.push(k); out.push('\u{0981}'); }
            else if rmc == H { match to_vowel(k) { Some(x) => { out.pop(); out.push(x); } None => out.push(k) } }
            else if trad && rmc.is_pure_consonant() { if "ুূৃ".contains(k) { out.push('\u{200C}'); } out.push(k); }
            else { out.push(k); }
            out.extend(v[1..].iter());
            return out;
        }
        if !v.is_empty() && v[0] == H && rmc == H { out.push('\u{200C}'); return out; }
        if !v.is_empty() && v[0] == '\u{09D7}' && rmc == H { out.pop(); out.push('ঔ'); return out; }
        out.push_str(value);
        out
    }

    pub(crate) fn run(bound: usize, shard: usize, nshards: usize) -> Value {
        let mut o = Out::new("fixed_rules", bound, "all key histories of length <= bound (quick 3) over 13 keys of the synthetic layout (incl. the ZWNJ key) + backspace, old reph off, x 8 settings of {auto vowel, auto chandrabindu, traditional joining}; step-by-step against the C12 model; typewriter-order vs Unicode-order words for C14");
        // t=ক u=র w=্ y=্য p=া e=ি c=ু o=ঁ x=। h=ৗ j=ুঁ z=ৄ
        let keys = ['t', 'u', 'w', 'y', 'p', 'e', 'c', 'o', 'x', 'h', 'j', 'z', '\\', '\u{8}'];
        let values = ["ক", "র", "্", "্য", "া", "ি", "ু", "ঁ", "।", "ৗ", "ুঁ", "ৄ", "\u{200C}"];
        let mut fails = Vec::new();
        let mut nt = 0u64;
        let mut cases = 0u64;
        for setting in 0..8u8 {
            let (vowel, chandra, trad) = (setting & 1 != 0, setting & 2 != 0, setting & 4 != 0);
            let mut cfgv = fixed_cfg(json!({"fixed_vowel": vowel, "fixed_chandra": chandra, "fixed_kar": trad}));
            cfgv.as_object_mut().unwrap().remove("database_dir"); // suggestions are off: no dictionary needed
            cases += for_all_strings(&keys, bound, shard, nshards, |h| {
                let mut s = Sess::new(cfgv.clone());
                let mut model = String::new();
                for c in h.chars() {
                    let sg = if c == '\u{8}' { if !model.is_empty() { model.pop(); } s.bs(false) } else {
                        let idx = keys.iter().position(|k| *k == c).unwrap();
                        model = c12(&model, values[idx], vowel, chandra, trad);
                        s.key(c, 0)
                    };
                    let got = if sg.is_lonely() { sg.get_lonely_suggestion().to_string() } else { sg.get_auxiliary_text().to_string() };
                    if got != model {
                        fails.push(json!({"clause": "C12 composed text follows the documented rules", "history": s.history(), "observed": got, "expected": model}));
                        break;
                    }
                    if s.ctx.ongoing_input_session() != !model.is_empty() {
                        fails.push(json!({"clause": "C06 session flag == composition non-empty", "history": s.history(), "observed": s.ctx.ongoing_input_session()}));
                        break;
                    }
                }
                if h.chars().count() == bound { nt += 1; }
            });
        }
        // old vowel-sign order ON with backspaces (no model needed): an event that returns an empty suggestion leaves an idle context
        // that answers the next key like a new one; non-empty pre-edit text implies an open session; backspaces reach the idle state
        {
            let keys_on = ['t', 'u', 'w', 'p', 'e', 'd', '\u{8}'];
            let mut cfgv = fixed_cfg(json!({"fixed_vowel": true, "fixed_kar_order": true}));
            cfgv.as_object_mut().unwrap().remove("database_dir");
            let probe_of = |k: char| -> String { let mut f = Sess::new(cfgv.clone()); let sg = f.key(k, 0); if sg.is_empty() { String::new() } else { sg.get_lonely_suggestion().to_string() } };
            let fresh_t = probe_of('t');
            cases += for_all_strings(&keys_on, bound.min(5), shard, nshards, |h| {
                let mut s = Sess::new(cfgv.clone());
                let mut bad = false;
                for c in h.chars() {
                    let sg = if c == '\u{8}' { s.bs(false) } else { s.key(c, 0) };
                    let text = if sg.is_empty() { String::new() } else { sg.get_lonely_suggestion().to_string() };
                    if !text.is_empty() && !s.ctx.ongoing_input_session() {
                        fails.push(json!({"clause": "C06 non-empty pre-edit text implies an ongoing session (old vowel-sign order)", "history": s.history(), "observed": text})); bad = true; break;
                    }
                    if c == '\u{8}' && sg.is_empty() && s.ctx.ongoing_input_session() {
                        fails.push(json!({"clause": "C06 C14 a backspace that returns an empty suggestion ends the session (old vowel-sign order: a sign must not be left waiting)", "history": s.history()})); bad = true; break;
                    }
                }
                if bad { return; }
                // repeated backspaces reach the idle state ...
                let mut n = 0;
                while s.ctx.ongoing_input_session() && n < 12 { let _ = s.bs(false); n += 1; }
                if s.ctx.ongoing_input_session() { fails.push(json!({"clause": "C06 repeated backspaces always reach the idle state (old vowel-sign order)", "history": s.history()})); return; }
                // ... and the idle context answers like a new one
                let sg = s.key('t', 0);
                let got = if sg.is_empty() { String::new() } else { sg.get_lonely_suggestion().to_string() };
                if got != fresh_t { fails.push(json!({"clause": "C06 C14 after the word is erased nothing of it (text or waiting sign) leaks into the next word (old vowel-sign order)", "history": s.history(), "observed": got, "expected": fresh_t})); }
            });
        }
        // C14: syllables in typewriter order (option on) vs Unicode order (option off)
        let cons = ["t", "u", "twi", "tr", "uy", "ty"]; // ক র ক্ত ক + ro-fola, র + zo-fola (joiner), ক + zo-fola
        let signs = [("e", "e"), ("d", "d"), ("f", "f"), ("dp", "m"), ("dg", "g")]; // (typewriter tail handled below)
        for setting in 0..8u8 {
            let (vowel, chandra, trad) = (setting & 1 != 0, setting & 2 != 0, setting & 4 != 0);
            for c1 in cons { for c2 in cons { for (s1, _) in signs { for chandra_end in [false, true] {
                cases += 1;
                let mut on = fixed_cfg(json!({"fixed_vowel": vowel, "fixed_chandra": chandra, "fixed_kar": trad, "fixed_kar_order": true}));
                let mut off = fixed_cfg(json!({"fixed_vowel": vowel, "fixed_chandra": chandra, "fixed_kar": trad}));
                on.as_object_mut().unwrap().remove("database_dir");
                off.as_object_mut().unwrap().remove("database_dir");
                // syllable 1: plain consonant cluster c1 with sign া ; syllable 2: cluster c2 with left-standing / two-part sign
                let lead: String = s1.chars().take(1).collect();
                let tail: String = s1.chars().skip(1).collect();
                let tw = format!("{}p{}{}{}{}", c1, lead, c2, tail, if chandra_end { "o" } else { "" });
                let uni_sign = match s1 { "dp" => "m".to_string(), "dg" => "g".to_string(), x => x.to_string() };
                let un = format!("{}p{}{}{}", c1, c2, uni_sign, if chandra_end { "o" } else { "" });
                let mut a = Sess::new(on);
                let mut b = Sess::new(off);
                let ta = a.typ(&tw).map(|s| s.get_lonely_suggestion().to_string()).unwrap_or_default();
                let tb = b.typ(&un).map(|s| s.get_lonely_suggestion().to_string()).unwrap_or_default();
                nt += 1;
                if ta != tb {
                    fails.push(json!({"clause": "C14 typewriter-order typing == Unicode-order typing", "history": a.history(), "unicode_order_history": b.history(), "observed": ta, "expected": tb}));
                }
                // both syllables with the SAME sign (the second one's left part is typed while the first one's sign is the last character)
                if !chandra_end {
                    cases += 1;
                    let mk = |order: bool| { let mut c = fixed_cfg(json!({"fixed_vowel": vowel, "fixed_chandra": chandra, "fixed_kar": trad, "fixed_kar_order": order})); c.as_object_mut().unwrap().remove("database_dir"); c };
                    let tw2 = format!("{}{}{}{}{}{}", lead, c1, tail, lead, c2, tail);
                    let un2 = format!("{}{}{}{}", c1, uni_sign, c2, uni_sign);
                    let mut a2 = Sess::new(mk(true));
                    let mut b2 = Sess::new(mk(false));
                    let ta2 = a2.typ(&tw2).map(|s| s.get_lonely_suggestion().to_string()).unwrap_or_default();
                    let tb2 = b2.typ(&un2).map(|s| s.get_lonely_suggestion().to_string()).unwrap_or_default();
                    nt += 1;
                    if ta2 != tb2 {
                        fails.push(json!({"clause": "C14 typewriter-order typing == Unicode-order typing (two syllables with the same sign)", "history": a2.history(), "unicode_order_history": b2.history(), "observed": ta2, "expected": tb2}));
                    }
                }
            }}}}
        }
        let mut o2 = o;
        o2.cases = cases;
        o2.nontrivial = nt;
        for f in fails { o2.fail(f); }
        o2.sample(json!({"history": "t w e", "model": c12(&c12("ক", "্", false, false, false), "ি", false, false, false)}));
        o2.done()
    }
}
