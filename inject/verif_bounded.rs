//! Bounded conformance checks of real riti functions against executable forms of the
//! contracts (DESIGN.md 4.3).  Each check enumerates a stated finite domain completely and
//! returns {"check","bound","cases","nontrivial","failures":[...],"samples":[...]}.
use serde_json::{json, Value};

pub(crate) fn run(name: &str, bound: usize, shard: usize, nshards: usize) -> Value {
    match name {
        "reph" => reph::run(bound, shard, nshards),
        _ => json!({"check": name, "error": "unknown check"}),
    }
}

/// all strings of length <= n over `alpha`, in length-lexicographic order, sharded by index
pub(crate) fn for_all_strings(alpha: &[char], n: usize, shard: usize, nshards: usize, mut f: impl FnMut(&str)) -> u64 {
    let mut count: u64 = 0;
    let mut idx: u64 = 0;
    let mut s = String::new();
    for len in 0..=n {
        let mut digits = vec![0usize; len];
        loop {
            if idx % nshards as u64 == shard as u64 {
                s.clear();
                for &d in &digits { s.push(alpha[d]); }
                f(&s);
                count += 1;
            }
            idx += 1;
            // increment
            let mut k = len;
            loop {
                if k == 0 { break; }
                k -= 1;
                digits[k] += 1;
                if digits[k] < alpha.len() { break; }
                digits[k] = 0;
                if k == 0 { k = usize::MAX; break; }
            }
            if len == 0 || k == usize::MAX { break; }
        }
    }
    count
}

mod reph {
    use super::*;
    use crate::fixed::method::FixedMethod;
    use crate::utility::Utility;

    const H: char = '\u{09CD}';
    const CH: char = '\u{0981}';

    fn conj_start(p: &[char], e: usize) -> usize {
        if e > 0 && p[e - 1].is_pure_consonant() {
            if e >= 3 && p[e - 2] == H && p[e - 3].is_pure_consonant() { conj_start(p, e - 2) } else { e - 1 }
        } else { e }
    }
    /// the position the C13 statement prescribes
    pub(crate) fn reph_pos(p: &[char]) -> usize {
        let n = p.len();
        let a = if n > 0 && p[n - 1] == CH { 1 } else { 0 };
        let b = if n - a > 0 && p[n - a - 1].is_vowel() { 1 } else { 0 };
        let e = n - a - b;
        let s = conj_start(p, e);
        if s < e { s } else { n }
    }
    /// minimal orthographic well-formedness used by the placement clause: every hasanta follows a consonant
    fn wf(p: &[char]) -> bool {
        (0..p.len()).all(|i| p[i] != H || (i > 0 && p[i - 1].is_pure_consonant()))
    }

    pub(crate) fn run(bound: usize, shard: usize, nshards: usize) -> Value {
        // one representative per class the scan distinguishes (+ two consonants, both joiners)
        let alpha = ['ক', 'র', H, 'া', 'ই', CH, '\u{200D}', '\u{200C}', '।', 'ং'];
        let mut failures = Vec::new();
        let mut nontrivial = 0u64;
        let mut samples = Vec::new();
        let cases = for_all_strings(&alpha, bound, shard, nshards, |s| {
            let p: Vec<char> = s.chars().collect();
            let r = std::panic::catch_unwind(|| {
                let mut m = FixedMethod::verif_with_buffer(s);
                m.verif_insert_old_style_reph();
                m.verif_buffer().to_string()
            });
            let exp_pos = reph_pos(&p);
            let mut exp: String = p[..exp_pos].iter().collect();
            exp.push('র'); exp.push(H);
            exp.extend(p[exp_pos..].iter());
            match r {
                Err(_) => failures.push(json!({"input": s, "observed": "panic", "clause": "C01/C13 returns normally"})),
                Ok(out) => {
                    // conservation: out == p with "র্" inserted at one position
                    let o: Vec<char> = out.chars().collect();
                    let cons = o.len() == p.len() + 2 && (0..=p.len()).any(|k| o[..k] == p[..k] && o[k] == 'র' && o[k + 1] == H && o[k + 2..] == p[k..]);
                    if !cons {
                        failures.push(json!({"input": s, "observed": out, "clause": "C13 conservation"}));
                    } else if wf(&p) && out != exp {
                        failures.push(json!({"input": s, "observed": out, "expected": exp, "clause": "C13 placement"}));
                    }
                    if wf(&p) && exp_pos < p.len() { nontrivial += 1; if samples.len() < 5 { samples.push(json!({"input": s, "output": out})); } }
                }
            }
        });
        failures.truncate(20);
        json!({"check": "reph", "bound": bound, "cases": cases, "nontrivial": nontrivial, "failures": failures, "samples": samples,
               "domain": "all strings of length <= bound over {ক, র, hasanta, া, ই, chandrabindu, ZWJ, ZWNJ, ।, ং}"})
    }
}
