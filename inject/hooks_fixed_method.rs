
// ---- appended by the verification harness in scratch copies only (cfg openbangla_riti_verif_internal: hooks into private items; when they no longer compile against the current tree the driver is built without them and only the API-level checks run) ----
#[cfg(openbangla_riti_verif_internal)]
impl FixedMethod {
    pub(crate) fn verif_with_buffer(s: &str) -> Self {
        FixedMethod { buffer: s.to_string(), typed: String::new(), pending_kar: None, suggestions: Vec::new(), layout: Layout::verif_empty() }
    }
    pub(crate) fn verif_insert_old_style_reph(&mut self) { self.insert_old_style_reph() }
    pub(crate) fn verif_internal_backspace_step(&mut self, n: usize) { self.internal_backspace_step(n) }
    pub(crate) fn verif_process_key_value(&mut self, v: &str, c: &Config) { self.process_key_value(v, c) }
    pub(crate) fn verif_buffer(&self) -> &str { &self.buffer }
    pub(crate) fn verif_state(&self) -> (String, String, Option<char>) {
        (self.buffer.clone(), self.typed.clone(), self.pending_kar.as_ref().map(|p| match p { PendingKar::I => 'ি', PendingKar::E => 'ে', PendingKar::OI => 'ৈ' }))
    }
}

/// C04: finite call-site domain of layout_get_value(_numpad): every (key code, modifier, numpad) through the
/// public get_char_for_key against the layout JSON read independently (names from the riti.h-derived key table)
#[cfg(openbangla_riti_verif_internal)]
pub(crate) fn verif_layout_values() -> serde_json::Value {
    use serde_json::json;
    let table: serde_json::Value = serde_json::from_str(&std::fs::read_to_string(crate::verif_driver::gen_file("keytable.json")).unwrap()).unwrap();
    let mut failures = Vec::new();
    let mut cases = 0u64;
    let mut nontrivial = 0u64;
    for layout_path in [crate::verif_driver::probhat_layout(), crate::verif_driver::synthetic_layout()] {
        let raw: serde_json::Value = serde_json::from_str(&std::fs::read_to_string(&layout_path).unwrap()).unwrap();
        let entries = raw["layout"].as_object().unwrap().clone();
        let layout = Layout::parse(raw["layout"].clone()).unwrap();
        let mut by_code = std::collections::HashMap::new();
        for r in table.as_array().unwrap() { by_code.insert(r["code"].as_u64().unwrap() as u16, r.clone()); }
        for key in 0..=u16::MAX {
            for m in 0..=255u8 {
                // every modifier byte for published keys, four representative bytes for the 65425 unpublished codes
                if !by_code.contains_key(&key) && !(m == 0 || m == 1 || m == 2 || m == 0xFF) { continue; }
                for numpad in [false, true] {
                    cases += 1;
                    let got = layout.get_char_for_key(key, crate::utility::get_modifiers(m).into(), numpad);
                    let exp: Option<String> = match by_code.get(&key) {
                        None => None,
                        Some(r) => match (r["kind"].as_str(), r["name"].as_str()) {
                            (Some("main"), Some(n)) => entries.get(&format!("Key_{}_{}", n, if m & 2 == 2 { "AltGr" } else { "Normal" })).and_then(|v| v.as_str()).filter(|s| !s.is_empty()).map(|s| s.to_string()),
                            (Some("pad"), Some(n)) => if numpad { entries.get(n).and_then(|v| v.as_str()).filter(|s| !s.is_empty()).map(|s| s.to_string()) } else { None },
                            _ => None,
                        },
                    };
                    if exp.is_some() { nontrivial += 1; }
                    if got != exp && failures.len() < 20 {
                        failures.push(json!({"clause": "C04 key value == layout file entry for the key name / plane / number-pad option", "layout": layout_path, "key": key, "modifier": m, "numpad": numpad, "observed": got, "expected": exp}));
                    }
                }
            }
        }
    }
    json!({"check": "layout_values", "bound": 0, "cases": cases, "nontrivial": nontrivial, "failures": failures, "samples": [{"key": 41110, "modifier": 2, "numpad": false}],
           "domain": "all 65536 key codes x {all 256 modifier bytes for published codes; 0,1,2,255 otherwise} x numpad on/off x {Probhat, synthetic layout}", "exhaustive": true})
}
