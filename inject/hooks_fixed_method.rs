
// ---- appended by the verification harness in scratch copies only (cfg openbangla_riti_verif) ----
#[cfg(openbangla_riti_verif)]
impl FixedMethod {
    pub(crate) fn verif_with_buffer(s: &str) -> Self {
        FixedMethod { buffer: s.to_string(), typed: String::new(), pending_kar: None, suggestions: Vec::new(), layout: Layout::verif_empty() }
    }
    pub(crate) fn verif_insert_old_style_reph(&mut self) { self.insert_old_style_reph() }
    pub(crate) fn verif_internal_backspace_step(&mut self, n: usize) { self.internal_backspace_step(n) }
    pub(crate) fn verif_process_key_value(&mut self, v: &str, c: &Config) { self.process_key_value(v, c) }
    pub(crate) fn verif_buffer(&self) -> &str { &self.buffer }
    pub(crate) fn verif_state(&self) -> (String, String, Option<char>) {
        (self.buffer.clone(), self.typed.clone(), self.pending_kar.as_ref().map(|p| match p { PendingKar::I => 'ি', PendingKar::E => 'ে', PendingKar::OI => 'ৈ' }))
    }
}
