
// ---- appended by the verification harness in scratch copies only (cfg openbangla_riti_verif_internal: hooks into private items; when they no longer compile against the current tree the driver is built without them and only the API-level checks run) ----
#[cfg(openbangla_riti_verif_internal)]
impl Layout {
    pub(crate) fn verif_empty() -> Self { Layout { map: HashMap::new() } }
    pub(crate) fn verif_from_pairs(pairs: &[(&str, &str)]) -> Self {
        Layout { map: pairs.iter().map(|(k, v)| (k.to_string(), v.to_string())).collect() }
    }
    pub(crate) fn verif_layout_get_value(&self, key: &str, altgr: bool) -> Option<String> {
        self.layout_get_value(key, if altgr { LayoutModifiers::AltGr } else { LayoutModifiers::Normal })
    }
    pub(crate) fn verif_layout_get_value_numpad(&self, key: &str, numpad: bool) -> Option<String> {
        self.layout_get_value_numpad(key, numpad)
    }
    pub(crate) fn verif_raw(&self, key: &str) -> Option<&String> { self.map.get(key) }
}
