//! FFI life-cycle sequences executed under Miri (bounded stand-in for the parts of C19 that Kani cannot
//! reach: context handles, the non-null path of riti_string_free, leak freedom).  Placed into a scratch
//! copy of the crate as tests/verif_ffi_miri.rs by tools/miri_run.py; Miri checks every memory access,
//! use-after-free, double free, invalid UTF-8 assumptions and, at exit, that nothing is leaked.
#![allow(improper_ctypes)]
use riti::config::Config;
/// the context handle is opaque on the C side; the test does not depend on the Rust type behind it
#[repr(C)] pub struct RitiContext { _private: [u8; 0] }
use riti::suggestion::Suggestion;
use std::ffi::{CStr, CString};
use std::os::raw::c_char;

extern "C" {
    fn riti_config_new() -> *mut Config;
    fn riti_config_free(ptr: *mut Config);
    fn riti_config_set_layout_file(ptr: *mut Config, path: *const c_char) -> bool;
    fn riti_config_set_database_dir(ptr: *mut Config, path: *const c_char) -> bool;
    fn riti_config_set_phonetic_suggestion(ptr: *mut Config, o: bool);
    fn riti_config_set_fixed_suggestion(ptr: *mut Config, o: bool);
    fn riti_config_set_fixed_old_kar_order(ptr: *mut Config, o: bool);
    fn riti_config_set_suggestion_include_english(ptr: *mut Config, o: bool);
    fn riti_config_set_smart_quote(ptr: *mut Config, o: bool);
    fn riti_config_set_ansi_encoding(ptr: *mut Config, o: bool);
    fn riti_context_new_with_config(ptr: *const Config) -> *mut RitiContext;
    fn riti_context_free(ptr: *mut RitiContext);
    fn riti_get_suggestion_for_key(ptr: *mut RitiContext, key: u16, modifier: u8, selection: u8) -> *mut Suggestion;
    fn riti_context_candidate_committed(ptr: *mut RitiContext, index: usize);
    fn riti_context_update_engine(ptr: *mut RitiContext, config: *const Config);
    fn riti_context_ongoing_input_session(ptr: *mut RitiContext) -> bool;
    fn riti_context_finish_input_session(ptr: *mut RitiContext);
    fn riti_context_backspace_event(ptr: *mut RitiContext, ctrl: bool) -> *mut Suggestion;
    fn riti_suggestion_free(ptr: *mut Suggestion);
    fn riti_suggestion_get_suggestion(ptr: *const Suggestion, index: usize) -> *mut c_char;
    fn riti_suggestion_get_lonely_suggestion(ptr: *const Suggestion) -> *mut c_char;
    fn riti_suggestion_get_auxiliary_text(ptr: *const Suggestion) -> *mut c_char;
    fn riti_suggestion_get_pre_edit_text(ptr: *const Suggestion, index: usize) -> *mut c_char;
    fn riti_string_free(ptr: *mut c_char);
    fn riti_suggestion_previously_selected_index(ptr: *const Suggestion) -> usize;
    fn riti_suggestion_get_length(ptr: *const Suggestion) -> usize;
    fn riti_suggestion_is_lonely(ptr: *const Suggestion) -> bool;
    fn riti_suggestion_is_empty(ptr: *const Suggestion) -> bool;
}

/// reads every string of a suggestion through the C interface, compares with the Rust API, returns the
/// pointers (still owned by the caller) so that they can be read again after later calls
unsafe fn read_out(s: *mut Suggestion) -> Vec<(*mut c_char, String)> {
    let r: &Suggestion = &*s;
    let mut out = Vec::new();
    let mut take_tagged = |p: *mut c_char, expect: String, tag: &str| {
        assert!(!p.is_null());
        // NUL-terminated valid UTF-8 equal to the value the Rust API reports
        assert_eq!(CStr::from_ptr(p).to_str().unwrap(), expect, "[{}] string handed to the C host differs from the value of the Rust API", tag);
        out.push((p, expect));
    };
    // the pre-edit text is where the ANSI conversion happens (C16): the C host sees exactly what Suggestion::get_pre_edit_text gives
    macro_rules! take { ($p:expr, $e:expr) => { take_tagged($p, $e, "C19") }; ($p:expr, $e:expr, $t:expr) => { take_tagged($p, $e, $t) }; }
    assert_eq!(riti_suggestion_is_lonely(s), r.is_lonely());
    assert_eq!(riti_suggestion_is_empty(s), r.is_empty());
    if r.is_lonely() {
        take!(riti_suggestion_get_lonely_suggestion(s), r.get_lonely_suggestion().to_string());
        take!(riti_suggestion_get_pre_edit_text(s, 0), r.get_pre_edit_text(0), "C16 C19");
    } else {
        assert_eq!(riti_suggestion_get_length(s), r.len());
        assert_eq!(riti_suggestion_previously_selected_index(s), r.previously_selected_index());
        take!(riti_suggestion_get_auxiliary_text(s), r.get_auxiliary_text().to_string());
        for i in 0..r.len() {
            take!(riti_suggestion_get_suggestion(s, i), r.get_suggestions()[i].clone());
            take!(riti_suggestion_get_pre_edit_text(s, i), r.get_pre_edit_text(i), "C16 C19");
        }
    }
    out
}

unsafe fn recheck_and_free(v: Vec<(*mut c_char, String)>) {
    for (p, expect) in v {
        // unaffected by later calls on the context it came from
        assert_eq!(CStr::from_ptr(p).to_str().unwrap(), expect);
        riti_string_free(p);
    }
}

const VC_A: u16 = 0xA096;
const VC_I: u16 = 0xA09E;
const VC_M: u16 = 0xA0A2;
const VC_GRAVE: u16 = 0x0029;
const VC_QUOTE: u16 = 0x0064;
const VC_COLON: u16 = 0x0063;
const VC_PAREN_RIGHT: u16 = 0x0044;
const VC_KP_ENTER: u16 = 0x0E1C;

unsafe fn phonetic_cycle(suggestions: bool, english: bool, ansi: bool, keys: &[u16], backspaces: usize, commit: Option<usize>) {
    let cfg = riti_config_new();
    let l = CString::new("avro_phonetic").unwrap();
    assert!(riti_config_set_layout_file(cfg, l.as_ptr()));
    riti_config_set_phonetic_suggestion(cfg, suggestions);
    riti_config_set_suggestion_include_english(cfg, english);
    riti_config_set_smart_quote(cfg, true);
    riti_config_set_ansi_encoding(cfg, ansi);
    let ctx = riti_context_new_with_config(cfg);
    assert!(!ctx.is_null());
    let mut kept: Vec<(*mut Suggestion, Vec<(*mut c_char, String)>)> = Vec::new();
    for k in keys {
        let s = riti_get_suggestion_for_key(ctx, *k, 0, 0);
        assert!(!s.is_null());
        let strings = read_out(s);
        kept.push((s, strings));
    }
    for _ in 0..backspaces {
        let s = riti_context_backspace_event(ctx, false);
        let strings = read_out(s);
        kept.push((s, strings));
    }
    let _ = riti_context_ongoing_input_session(ctx);
    match commit {
        Some(i) => riti_context_candidate_committed(ctx, i),
        None => riti_context_finish_input_session(ctx),
    }
    riti_context_update_engine(ctx, cfg);
    let s = riti_context_backspace_event(ctx, true);
    let strings = read_out(s);
    kept.push((s, strings));
    // read-outs of suggestions after the context has moved on and after it has been freed
    riti_context_free(ctx);
    riti_config_free(cfg);
    for (s, strings) in kept {
        let again = read_out(s);
        riti_suggestion_free(s);
        recheck_and_free(strings);
        recheck_and_free(again);
    }
}

#[test]
fn ffi_life_cycles() {
    unsafe {
        // user files must not be touched: an unwritable, non-existent data home
        std::env::set_var("XDG_DATA_HOME", "/nonexistent/riti-verif-miri");
        let thorough = std::env::var("VERIF_TIER").map(|t| t == "thorough").unwrap_or(false);
        phonetic_cycle(true, true, false, &[VC_A, VC_M, VC_QUOTE], 1, Some(0));
        // empty texts: "`a" + backspace with suggestions off returns an empty single suggestion
        // ANSI output on: pre-edit text is the Bijoy encoding, also for a single-string suggestion
        phonetic_cycle(false, false, true, &[VC_GRAVE, VC_A], 1, None);
        if thorough {
            phonetic_cycle(true, false, true, &[VC_QUOTE, VC_A, VC_QUOTE], 0, None);
            phonetic_cycle(true, true, false, &[VC_COLON, VC_PAREN_RIGHT, VC_KP_ENTER], 2, None);
            phonetic_cycle(false, false, false, &[VC_GRAVE, VC_A], 1, None);
        }
        // nulls
        riti_string_free(std::ptr::null_mut());
        riti_suggestion_free(std::ptr::null_mut());
        riti_context_free(std::ptr::null_mut());
        riti_config_free(std::ptr::null_mut());
    }
}

/// update_engine on a live handle with a configuration in which the data directory, the options and finally the layout
/// (method switch) differ from the one the context was created with: the handle stays valid, nothing is leaked
unsafe fn reconfigure_cycle() {
    let cfg = riti_config_new();
    let l = CString::new("avro_phonetic").unwrap();
    assert!(riti_config_set_layout_file(cfg, l.as_ptr()));
    riti_config_set_phonetic_suggestion(cfg, true);
    let ctx = riti_context_new_with_config(cfg);
    let mut kept = Vec::new();
    let s = riti_get_suggestion_for_key(ctx, VC_A, 0, 0);
    kept.push((s, read_out(s)));
    riti_context_finish_input_session(ctx);
    // another data directory (a small one, data/mini_db) + option flips
    let db = CString::new(std::env::var("VERIF_MINI_DB").unwrap()).unwrap();
    assert!(riti_config_set_database_dir(cfg, db.as_ptr()));
    riti_config_set_suggestion_include_english(cfg, true);
    riti_context_update_engine(ctx, cfg);
    let s = riti_get_suggestion_for_key(ctx, VC_A, 0, 0);
    kept.push((s, read_out(s)));
    riti_context_finish_input_session(ctx);
    // another layout: the method object is replaced behind the same handle
    let l2 = CString::new(std::env::var("VERIF_SYNTH_LAYOUT").unwrap()).unwrap();
    assert!(riti_config_set_layout_file(cfg, l2.as_ptr()));
    riti_context_update_engine(ctx, cfg);
    let s = riti_get_suggestion_for_key(ctx, 0xA0A9, 0, 0);
    kept.push((s, read_out(s)));
    riti_context_update_engine(ctx, cfg);
    riti_context_free(ctx);
    riti_config_free(cfg);
    for (s, strings) in kept {
        riti_suggestion_free(s);
        recheck_and_free(strings);
    }
}

/// the way a front end really uses the interface: every suggestion is read out and freed before the next event, so the next
/// suggestion is usually allocated where the previous one was (system allocator).  Whatever the library keeps per address or
/// per index across calls shows up as a string that differs from the Rust API value.
unsafe fn eager_cycle(phonetic: bool, suggestions: bool, ansi: bool, keys: &[u16], backspaces: usize) {
    let cfg = riti_config_new();
    let l = if phonetic { CString::new("avro_phonetic").unwrap() } else { CString::new(std::env::var("VERIF_SYNTH_LAYOUT").unwrap()).unwrap() };
    assert!(riti_config_set_layout_file(cfg, l.as_ptr()));
    riti_config_set_phonetic_suggestion(cfg, suggestions);
    riti_config_set_fixed_suggestion(cfg, suggestions);
    riti_config_set_ansi_encoding(cfg, ansi);
    let ctx = riti_context_new_with_config(cfg);
    // the context is independently owned: the host may free (or go on editing) its config object at once
    riti_config_set_phonetic_suggestion(cfg, !suggestions);
    riti_config_set_ansi_encoding(cfg, !ansi);
    riti_config_free(cfg);
    for round in 0..2 {
        for k in keys {
            let s = riti_get_suggestion_for_key(ctx, *k, 0, 0);
            // the options are those of the configuration at creation time, whatever the host did to its object afterwards
            if !riti_suggestion_is_empty(s) { assert_eq!(riti_suggestion_is_lonely(s), !suggestions); }
            let strings = read_out(s);
            let again = read_out(s);
            recheck_and_free(strings);
            recheck_and_free(again);
            riti_suggestion_free(s);
        }
        for _ in 0..backspaces {
            let s = riti_context_backspace_event(ctx, false);
            let strings = read_out(s);
            recheck_and_free(strings);
            riti_suggestion_free(s);
        }
        if round == 0 { riti_context_finish_input_session(ctx); }
    }
    riti_context_free(ctx);
}

#[test]
fn ffi_eager_free_life_cycle() {
    unsafe {
        std::env::set_var("XDG_DATA_HOME", "/nonexistent/riti-verif-miri");
        for ansi in [true, false] {
            // "a", "am", "ami": three different texts at index 0, each in a suggestion allocated after the previous one was freed
            eager_cycle(true, false, ansi, &[VC_A, VC_M, VC_I], 2);
            // fixed layout, single-string suggestions (t = ক, p = া, i = ত)
            eager_cycle(false, false, ansi, &[0xA0A9, 0xA0A5, 0xA09E], 1);
        }
        let thorough = std::env::var("VERIF_TIER").map(|t| t == "thorough").unwrap_or(false);
        if thorough || !cfg!(miri) {
            // list-style suggestions (dictionary loaded: slow under Miri, quick natively)
            for ansi in [true, false] {
                eager_cycle(true, true, ansi, &[VC_A, VC_M, VC_I], 2);
                eager_cycle(false, true, ansi, &[0xA0A9, 0xA0A5, 0xA09E], 1);
            }
        }
    }
}

#[test]
fn ffi_reconfigure_life_cycle() {
    unsafe {
        std::env::set_var("XDG_DATA_HOME", "/nonexistent/riti-verif-miri");
        reconfigure_cycle();
    }
}

#[test]
fn ffi_fixed_life_cycle() {
    unsafe {
        std::env::set_var("XDG_DATA_HOME", "/nonexistent/riti-verif-miri");
        let layout = std::env::var("VERIF_SYNTH_LAYOUT").unwrap();
        let thorough = std::env::var("VERIF_TIER").map(|t| t == "thorough").unwrap_or(false);
        let runs: Vec<(bool, bool)> = if thorough { vec![(false, false), (true, true)] } else { vec![(true, true)] };
        for (sugg, order) in runs {
            let cfg = riti_config_new();
            let l = CString::new(layout.clone()).unwrap();
            assert!(riti_config_set_layout_file(cfg, l.as_ptr()));
            riti_config_set_fixed_suggestion(cfg, sugg);
            riti_config_set_fixed_old_kar_order(cfg, order);
            let ctx = riti_context_new_with_config(cfg);
            let mut kept = Vec::new();
            // e = ি (left-standing sign first: empty composition, waiting sign), t = ক, w = hasanta, j = multi-code-point value
            for k in [0xA09Au16, 0xA0A9, 0xA0AC, 0xA09F] {
                let s = riti_get_suggestion_for_key(ctx, k, 0, 0);
                kept.push((s, read_out(s)));
            }
            let s = riti_context_backspace_event(ctx, false);
            kept.push((s, read_out(s)));
            riti_context_candidate_committed(ctx, 0);
            // t = ক, w = hasanta, z = the vowel sign without an independent form (U+09C4), d = ে after it: every string the C side
            // hands out has the length of the Rust value (no interior NUL, nothing cut)
            for k in [0xA0A9u16, 0xA0AC, 0xA0AF, 0xA099] {
                let s = riti_get_suggestion_for_key(ctx, k, 0, 0);
                let strings = read_out(s);
                for (p, expect) in &strings { assert_eq!(CStr::from_ptr(*p).to_bytes().len(), expect.len()); assert!(!expect.contains('\0')); }
                kept.push((s, strings));
            }
            riti_context_finish_input_session(ctx);
            riti_context_free(ctx);
            riti_config_free(cfg);
            for (s, strings) in kept {
                riti_suggestion_free(s);
                recheck_and_free(strings);
            }
        }
    }
}

// ---- "leaks nothing", also for memory that stays reachable (a process-wide table that only grows is invisible to a
// reachability-based leak check): live heap bytes of this thread, counted by the allocator of this test binary, do not grow from
// one complete life cycle to the next when the words differ.  Native run only (Miri has its own allocator and leak check).
#[cfg(not(miri))]
mod counting {
    use std::alloc::{GlobalAlloc, Layout, System};
    use std::cell::Cell;
    thread_local! { pub static LIVE: Cell<isize> = const { Cell::new(0) }; }
    pub struct Counting;
    fn add(n: isize) { let _ = LIVE.try_with(|c| c.set(c.get() + n)); }
    unsafe impl GlobalAlloc for Counting {
        unsafe fn alloc(&self, l: Layout) -> *mut u8 { let p = System.alloc(l); if !p.is_null() { add(l.size() as isize); } p }
        unsafe fn alloc_zeroed(&self, l: Layout) -> *mut u8 { let p = System.alloc_zeroed(l); if !p.is_null() { add(l.size() as isize); } p }
        unsafe fn dealloc(&self, p: *mut u8, l: Layout) { System.dealloc(p, l); add(-(l.size() as isize)); }
        unsafe fn realloc(&self, p: *mut u8, l: Layout, new: usize) -> *mut u8 { let q = System.realloc(p, l, new); if !q.is_null() { add(new as isize - l.size() as isize); } q }
    }
    pub fn live() -> isize { LIVE.with(|c| c.get()) }
}
#[cfg(not(miri))]
#[global_allocator]
static ALLOC: counting::Counting = counting::Counting;

#[cfg(not(miri))]
unsafe fn words_cycle(phonetic: bool, words: &[&[u16]]) {
    let cfg = riti_config_new();
    let l = if phonetic { CString::new("avro_phonetic").unwrap() } else { CString::new(std::env::var("VERIF_SYNTH_LAYOUT").unwrap()).unwrap() };
    assert!(riti_config_set_layout_file(cfg, l.as_ptr()));
    if let Ok(d) = std::env::var("VERIF_DATA_DIR") { let d = CString::new(d).unwrap(); assert!(riti_config_set_database_dir(cfg, d.as_ptr())); }
    riti_config_set_phonetic_suggestion(cfg, true);
    riti_config_set_fixed_suggestion(cfg, true);
    let ctx = riti_context_new_with_config(cfg);
    for w in words {
        for k in w.iter() {
            let s = riti_get_suggestion_for_key(ctx, *k, 0, 0);
            let strings = read_out(s);
            recheck_and_free(strings);
            riti_suggestion_free(s);
        }
        riti_context_finish_input_session(ctx);
    }
    riti_context_free(ctx);
    riti_config_free(cfg);
}

#[cfg(not(miri))]
#[test]
fn ffi_no_growth_across_life_cycles() {
    unsafe {
        std::env::set_var("XDG_DATA_HOME", "/nonexistent/riti-verif-miri");
        // letter key codes: 0xA096 + (letter - 'a')
        let k = |s: &str| -> Vec<u16> { s.chars().map(|c| 0xA096 + (c as u16 - 'a' as u16)).collect() };
        let sets: [Vec<Vec<u16>>; 4] = [
            vec![k("tp"), k("ami")], // warm-up: one-time initialisations of the process
            vec![k("tpi"), k("tui"), k("ipt"), k("kotha"), k("amar")],
            vec![k("sti"), k("upt"), k("ats"), k("bisoy"), k("sesh")],
            vec![k("ust"), k("ita"), k("pta"), k("hotat"), k("ebong"), k("tsa"), k("aut")],
        ];
        for phonetic in [false, true] {
            let mut after = Vec::new();
            for set in sets.iter() {
                let refs: Vec<&[u16]> = set.iter().map(|w| w.as_slice()).collect();
                words_cycle(phonetic, &refs);
                after.push(counting::live());
            }
            // after the warm-up, a complete life cycle gives back what it took: nothing accumulates with the number of words composed
            for i in 2..after.len() {
                assert!(after[i] - after[1] <= 16 * 1024, "[C19] live heap bytes grow from one complete life cycle to the next ({} method): {:?}", if phonetic { "phonetic" } else { "fixed" }, after);
            }
        }
    }
}

// ---- "every returned string is valid UTF-8", whatever the files of the data directory hold: a byte that is not UTF-8 inside a
// JSON string of one of the three tables.  The context may refuse such a directory (creation panics: it is created through the
// Rust API here, under catch_unwind, because a panic cannot cross the C boundary); if it accepts it, nothing it hands to the C
// side may be ill-formed.
#[test]
fn ffi_strings_are_utf8_whatever_the_data_files_hold() {
    unsafe {
        std::env::set_var("XDG_DATA_HOME", "/nonexistent/riti-verif-miri");
        let src = std::env::var("VERIF_MINI_DB").unwrap();
        let k = |s: &str| -> Vec<u16> { s.chars().map(|c| 0xA096 + (c as u16 - 'a' as u16)).collect() };
        for (n, file) in ["suffix.json", "dictionary.json", "autocorrect.json"].iter().enumerate() {
            let dir = std::env::temp_dir().join(format!("riti-verif-ffi-dmg-{}-{}", std::process::id(), n));
            let _ = std::fs::remove_dir_all(&dir);
            std::fs::create_dir_all(&dir).unwrap();
            for f in ["suffix.json", "dictionary.json", "autocorrect.json"] { std::fs::write(dir.join(f), std::fs::read(format!("{}/{}", src, f)).unwrap()).unwrap(); }
            let mut bytes = std::fs::read(dir.join(file)).unwrap();
            match bytes.iter().position(|b| *b >= 0x80) { Some(i) => bytes[i] = 0xFF, None => { let i = bytes.iter().rposition(|b| b.is_ascii_alphabetic()).unwrap(); bytes[i] = 0xFF; } }
            std::fs::write(dir.join(file), &bytes).unwrap();
            let cfg = riti_config_new();
            let l = CString::new("avro_phonetic").unwrap();
            assert!(riti_config_set_layout_file(cfg, l.as_ptr()));
            let d = CString::new(dir.to_str().unwrap()).unwrap();
            assert!(riti_config_set_database_dir(cfg, d.as_ptr()));
            riti_config_set_phonetic_suggestion(cfg, true);
            let hook = std::panic::take_hook();
            std::panic::set_hook(Box::new(|_| {}));
            let created = std::panic::catch_unwind(|| Box::into_raw(Box::new(riti::context::RitiContext::new_with_config(&*cfg))));
            std::panic::set_hook(hook);
            if let Ok(raw) = created {
                let ctx = raw as *mut RitiContext;
                for w in [k("amr"), k("kgulo"), k("x"), k("am")] {
                    for key in w {
                        let s = riti_get_suggestion_for_key(ctx, key, 0, 0);
                        let mut ps: Vec<*mut c_char> = Vec::new();
                        if riti_suggestion_is_lonely(s) { ps.push(riti_suggestion_get_lonely_suggestion(s)); ps.push(riti_suggestion_get_pre_edit_text(s, 0)); }
                        else { ps.push(riti_suggestion_get_auxiliary_text(s)); for i in 0..riti_suggestion_get_length(s) { ps.push(riti_suggestion_get_suggestion(s, i)); ps.push(riti_suggestion_get_pre_edit_text(s, i)); } }
                        for p in ps {
                            assert!(CStr::from_ptr(p).to_str().is_ok(), "[C19] string handed to the C host is not valid UTF-8 (data directory with a damaged {})", file);
                            riti_string_free(p);
                        }
                        riti_suggestion_free(s);
                    }
                    riti_context_finish_input_session(ctx);
                }
                riti_context_free(ctx);
            }
            riti_config_free(cfg);
            let _ = std::fs::remove_dir_all(&dir);
        }
    }
}
