use vstd::prelude::*;
use LayoutModifiers::*;
verus! {

pub enum KeyName { Main(Seq<char>), Pad(Seq<char>) }
pub open spec fn key_name(k: u16) -> Option<KeyName> {
    if k == 41 { Some(KeyName::Main("Grave"@)) }
    else if k == 1 { Some(KeyName::Main("Tilde"@)) }
    else if k == 2 { Some(KeyName::Main("1"@)) }
    else if k == 3 { Some(KeyName::Main("2"@)) }
    else if k == 4 { Some(KeyName::Main("3"@)) }
    else if k == 5 { Some(KeyName::Main("4"@)) }
    else if k == 6 { Some(KeyName::Main("5"@)) }
    else if k == 7 { Some(KeyName::Main("6"@)) }
    else if k == 8 { Some(KeyName::Main("7"@)) }
    else if k == 9 { Some(KeyName::Main("8"@)) }
    else if k == 10 { Some(KeyName::Main("9"@)) }
    else if k == 11 { Some(KeyName::Main("0"@)) }
    else if k == 59 { Some(KeyName::Main("Exclaim"@)) }
    else if k == 60 { Some(KeyName::Main("At"@)) }
    else if k == 61 { Some(KeyName::Main("Hash"@)) }
    else if k == 62 { Some(KeyName::Main("Dollar"@)) }
    else if k == 63 { Some(KeyName::Main("Percent"@)) }
    else if k == 64 { Some(KeyName::Main("Circum"@)) }
    else if k == 65 { Some(KeyName::Main("Ampersand"@)) }
    else if k == 66 { Some(KeyName::Main("Asterisk"@)) }
    else if k == 67 { Some(KeyName::Main("ParenLeft"@)) }
    else if k == 68 { Some(KeyName::Main("ParenRight"@)) }
    else if k == 87 { Some(KeyName::Main("UnderScore"@)) }
    else if k == 88 { Some(KeyName::Main("Plus"@)) }
    else if k == 12 { Some(KeyName::Main("Minus"@)) }
    else if k == 13 { Some(KeyName::Main("Equals"@)) }
    else if k == 41110 { Some(KeyName::Main("a"@)) }
    else if k == 41111 { Some(KeyName::Main("b"@)) }
    else if k == 41112 { Some(KeyName::Main("c"@)) }
    else if k == 41113 { Some(KeyName::Main("d"@)) }
    else if k == 41114 { Some(KeyName::Main("e"@)) }
    else if k == 41115 { Some(KeyName::Main("f"@)) }
    else if k == 41116 { Some(KeyName::Main("g"@)) }
    else if k == 41117 { Some(KeyName::Main("h"@)) }
    else if k == 41118 { Some(KeyName::Main("i"@)) }
    else if k == 41119 { Some(KeyName::Main("j"@)) }
    else if k == 41120 { Some(KeyName::Main("k"@)) }
    else if k == 41121 { Some(KeyName::Main("l"@)) }
    else if k == 41122 { Some(KeyName::Main("m"@)) }
    else if k == 41123 { Some(KeyName::Main("n"@)) }
    else if k == 41124 { Some(KeyName::Main("o"@)) }
    else if k == 41125 { Some(KeyName::Main("p"@)) }
    else if k == 41126 { Some(KeyName::Main("q"@)) }
    else if k == 41127 { Some(KeyName::Main("r"@)) }
    else if k == 41128 { Some(KeyName::Main("s"@)) }
    else if k == 41129 { Some(KeyName::Main("t"@)) }
    else if k == 41130 { Some(KeyName::Main("u"@)) }
    else if k == 41131 { Some(KeyName::Main("v"@)) }
    else if k == 41132 { Some(KeyName::Main("w"@)) }
    else if k == 41133 { Some(KeyName::Main("x"@)) }
    else if k == 41134 { Some(KeyName::Main("y"@)) }
    else if k == 41135 { Some(KeyName::Main("z"@)) }
    else if k == 41140 { Some(KeyName::Main("A"@)) }
    else if k == 41141 { Some(KeyName::Main("B"@)) }
    else if k == 41142 { Some(KeyName::Main("C"@)) }
    else if k == 41143 { Some(KeyName::Main("D"@)) }
    else if k == 41144 { Some(KeyName::Main("E"@)) }
    else if k == 41145 { Some(KeyName::Main("F"@)) }
    else if k == 41146 { Some(KeyName::Main("G"@)) }
    else if k == 41147 { Some(KeyName::Main("H"@)) }
    else if k == 41148 { Some(KeyName::Main("I"@)) }
    else if k == 41149 { Some(KeyName::Main("J"@)) }
    else if k == 41150 { Some(KeyName::Main("K"@)) }
    else if k == 41151 { Some(KeyName::Main("L"@)) }
    else if k == 41152 { Some(KeyName::Main("M"@)) }
    else if k == 41153 { Some(KeyName::Main("N"@)) }
    else if k == 41154 { Some(KeyName::Main("O"@)) }
    else if k == 41155 { Some(KeyName::Main("P"@)) }
    else if k == 41156 { Some(KeyName::Main("Q"@)) }
    else if k == 41157 { Some(KeyName::Main("R"@)) }
    else if k == 41158 { Some(KeyName::Main("S"@)) }
    else if k == 41159 { Some(KeyName::Main("T"@)) }
    else if k == 41160 { Some(KeyName::Main("U"@)) }
    else if k == 41161 { Some(KeyName::Main("V"@)) }
    else if k == 41162 { Some(KeyName::Main("W"@)) }
    else if k == 41163 { Some(KeyName::Main("X"@)) }
    else if k == 41164 { Some(KeyName::Main("Y"@)) }
    else if k == 41165 { Some(KeyName::Main("Z"@)) }
    else if k == 26 { Some(KeyName::Main("BracketLeft"@)) }
    else if k == 27 { Some(KeyName::Main("BracketRight"@)) }
    else if k == 43 { Some(KeyName::Main("BackSlash"@)) }
    else if k == 91 { Some(KeyName::Main("BraceLeft"@)) }
    else if k == 92 { Some(KeyName::Main("BraceRight"@)) }
    else if k == 93 { Some(KeyName::Main("Bar"@)) }
    else if k == 39 { Some(KeyName::Main("Semicolon"@)) }
    else if k == 40 { Some(KeyName::Main("Apostrophe"@)) }
    else if k == 51 { Some(KeyName::Main("Comma"@)) }
    else if k == 52 { Some(KeyName::Main("Period"@)) }
    else if k == 53 { Some(KeyName::Main("Slash"@)) }
    else if k == 99 { Some(KeyName::Main("Colon"@)) }
    else if k == 100 { Some(KeyName::Main("Quote"@)) }
    else if k == 101 { Some(KeyName::Main("Less"@)) }
    else if k == 102 { Some(KeyName::Main("Greater"@)) }
    else if k == 103 { Some(KeyName::Main("Question"@)) }
    else if k == 3637 { Some(KeyName::Pad("NumDivide"@)) }
    else if k == 55 { Some(KeyName::Pad("NumMultiply"@)) }
    else if k == 74 { Some(KeyName::Pad("NumSubtract"@)) }
    else if k == 78 { Some(KeyName::Pad("NumAdd"@)) }
    else if k == 83 { Some(KeyName::Pad("NumDecimal"@)) }
    else if k == 79 { Some(KeyName::Pad("Num1"@)) }
    else if k == 80 { Some(KeyName::Pad("Num2"@)) }
    else if k == 81 { Some(KeyName::Pad("Num3"@)) }
    else if k == 75 { Some(KeyName::Pad("Num4"@)) }
    else if k == 76 { Some(KeyName::Pad("Num5"@)) }
    else if k == 77 { Some(KeyName::Pad("Num6"@)) }
    else if k == 71 { Some(KeyName::Pad("Num7"@)) }
    else if k == 72 { Some(KeyName::Pad("Num8"@)) }
    else if k == 73 { Some(KeyName::Pad("Num9"@)) }
    else if k == 82 { Some(KeyName::Pad("Num0"@)) }
    else { None }
}


pub struct Layout;
pub uninterp spec fn lgv(l: Layout, name: Seq<char>, m: LayoutModifiers) -> Option<Seq<char>>;
pub uninterp spec fn lgvn(l: Layout, name: Seq<char>, np: bool) -> Option<Seq<char>>;
pub open spec fn optv(o: Option<String>) -> Option<Seq<char>> { match o { Some(s) => Some(s@), None => None } }

// Begin Alphanumeric Zone
pub const VC_GRAVE: u16 = 0x0029; // '`'
pub const VC_TILDE: u16 = 0x0001; // '~'

pub const VC_1: u16 = 0x0002;
pub const VC_2: u16 = 0x0003;
pub const VC_3: u16 = 0x0004;
pub const VC_4: u16 = 0x0005;
pub const VC_5: u16 = 0x0006;
pub const VC_6: u16 = 0x0007;
pub const VC_7: u16 = 0x0008;
pub const VC_8: u16 = 0x0009;
pub const VC_9: u16 = 0x000A;
pub const VC_0: u16 = 0x000B;

pub const VC_EXCLAIM: u16 = 0x003B;
pub const VC_AT: u16 = 0x003C;
pub const VC_HASH: u16 = 0x003D;
pub const VC_DOLLAR: u16 = 0x003E;
pub const VC_PERCENT: u16 = 0x003F;
pub const VC_CIRCUM: u16 = 0x0040;
pub const VC_AMPERSAND: u16 = 0x0041;
pub const VC_ASTERISK: u16 = 0x0042;
pub const VC_PAREN_LEFT: u16 = 0x0043;
pub const VC_PAREN_RIGHT: u16 = 0x0044;
pub const VC_UNDERSCORE: u16 = 0x0057;
pub const VC_PLUS: u16 = 0x0058;

pub const VC_MINUS: u16 = 0x000C; // '-'
pub const VC_EQUALS: u16 = 0x000D; // '='

pub const VC_A: u16 = 0xA096;
pub const VC_B: u16 = 0xA097;
pub const VC_C: u16 = 0xA098;
pub const VC_D: u16 = 0xA099;
pub const VC_E: u16 = 0xA09A;
pub const VC_F: u16 = 0xA09B;
pub const VC_G: u16 = 0xA09C;
pub const VC_H: u16 = 0xA09D;
pub const VC_I: u16 = 0xA09E;
pub const VC_J: u16 = 0xA09F;
pub const VC_K: u16 = 0xA0A0;
pub const VC_L: u16 = 0xA0A1;
pub const VC_M: u16 = 0xA0A2;
pub const VC_N: u16 = 0xA0A3;
pub const VC_O: u16 = 0xA0A4;
pub const VC_P: u16 = 0xA0A5;
pub const VC_Q: u16 = 0xA0A6;
pub const VC_R: u16 = 0xA0A7;
pub const VC_S: u16 = 0xA0A8;
pub const VC_T: u16 = 0xA0A9;
pub const VC_U: u16 = 0xA0AA;
pub const VC_V: u16 = 0xA0AB;
pub const VC_W: u16 = 0xA0AC;
pub const VC_X: u16 = 0xA0AD;
pub const VC_Y: u16 = 0xA0AE;
pub const VC_Z: u16 = 0xA0AF;

pub const VC_A_SHIFT: u16 = 0xA0B4;
pub const VC_B_SHIFT: u16 = 0xA0B5;
pub const VC_C_SHIFT: u16 = 0xA0B6;
pub const VC_D_SHIFT: u16 = 0xA0B7;
pub const VC_E_SHIFT: u16 = 0xA0B8;
pub const VC_F_SHIFT: u16 = 0xA0B9;
pub const VC_G_SHIFT: u16 = 0xA0BA;
pub const VC_H_SHIFT: u16 = 0xA0BB;
pub const VC_I_SHIFT: u16 = 0xA0BC;
pub const VC_J_SHIFT: u16 = 0xA0BD;
pub const VC_K_SHIFT: u16 = 0xA0BE;
pub const VC_L_SHIFT: u16 = 0xA0BF;
pub const VC_M_SHIFT: u16 = 0xA0C0;
pub const VC_N_SHIFT: u16 = 0xA0C1;
pub const VC_O_SHIFT: u16 = 0xA0C2;
pub const VC_P_SHIFT: u16 = 0xA0C3;
pub const VC_Q_SHIFT: u16 = 0xA0C4;
pub const VC_R_SHIFT: u16 = 0xA0C5;
pub const VC_S_SHIFT: u16 = 0xA0C6;
pub const VC_T_SHIFT: u16 = 0xA0C7;
pub const VC_U_SHIFT: u16 = 0xA0C8;
pub const VC_V_SHIFT: u16 = 0xA0C9;
pub const VC_W_SHIFT: u16 = 0xA0CA;
pub const VC_X_SHIFT: u16 = 0xA0CB;
pub const VC_Y_SHIFT: u16 = 0xA0CC;
pub const VC_Z_SHIFT: u16 = 0xA0CD;

pub const VC_BRACKET_LEFT: u16 = 0x001A; // '['
pub const VC_BRACKET_RIGHT: u16 = 0x001B; // ']'
pub const VC_BACK_SLASH: u16 = 0x002B; // '\'

pub const VC_BRACE_LEFT: u16 = 0x005B; // '{'
pub const VC_BRACE_RIGHT: u16 = 0x005C; // '}'
pub const VC_BAR: u16 = 0x005D; // '|'

pub const VC_SEMICOLON: u16 = 0x0027; // ';'
pub const VC_APOSTROPHE: u16 = 0x0028; // '''

pub const VC_COMMA: u16 = 0x0033; // ','
pub const VC_PERIOD: u16 = 0x0034; // '.'
pub const VC_SLASH: u16 = 0x0035; // '/'

pub const VC_COLON: u16 = 0x0063; // ':'
pub const VC_QUOTE: u16 = 0x0064; // '"'
pub const VC_LESS: u16 = 0x0065; // '<'
pub const VC_GREATER: u16 = 0x0066; // '>'
pub const VC_QUESTION: u16 = 0x0067; // '?'

// End Alphanumeric Zone

// Begin Numeric Zone
pub const VC_KP_DIVIDE: u16 = 0x0E35;
pub const VC_KP_MULTIPLY: u16 = 0x0037;
pub const VC_KP_SUBTRACT: u16 = 0x004A;
pub const VC_KP_EQUALS: u16 = 0x0E0D;
pub const VC_KP_ADD: u16 = 0x004E;
pub const VC_KP_ENTER: u16 = 0x0E1C;
pub const VC_KP_DECIMAL: u16 = 0x0053;

pub const VC_KP_1: u16 = 0x004F;
pub const VC_KP_2: u16 = 0x0050;
pub const VC_KP_3: u16 = 0x0051;
pub const VC_KP_4: u16 = 0x004B;
pub const VC_KP_5: u16 = 0x004C;
pub const VC_KP_6: u16 = 0x004D;
pub const VC_KP_7: u16 = 0x0047;
pub const VC_KP_8: u16 = 0x0048;
pub const VC_KP_9: u16 = 0x0049;
pub const VC_KP_0: u16 = 0x0052;
// End Numeric Zone


pub enum LayoutModifiers {
    Normal,
    AltGr,
}
impl Layout {
    #[verifier::external_body]
    fn layout_get_value(&self, key: &str, modifier: LayoutModifiers) -> (r: Option<String>) ensures optv(r) == lgv(*self, key@, modifier) { unimplemented!() }
    #[verifier::external_body]
    fn layout_get_value_numpad(&self, key: &str, fixed_numpad: bool) -> (r: Option<String>) ensures optv(r) == lgvn(*self, key@, fixed_numpad) { unimplemented!() }

pub fn get_char_for_key(
        &self,
        key: u16,
        modifier: LayoutModifiers,
        fixed_numpad: bool,
    ) -> (r: Option<String>)
        ensures optv(r) == (match key_name(key) { Some(KeyName::Main(n)) => lgv(*self, n, modifier), Some(KeyName::Pad(n)) => lgvn(*self, n, fixed_numpad), None => None })
    {
        
        match (key, modifier) {
            // Numerics
            (VC_0, modifier) => self.layout_get_value("0", modifier),
            (VC_PAREN_RIGHT, modifier) => self.layout_get_value("ParenRight", modifier),

            (VC_1, modifier) => self.layout_get_value("1", modifier),
            (VC_EXCLAIM, modifier) => self.layout_get_value("Exclaim", modifier),

            (VC_2, modifier) => self.layout_get_value("2", modifier),
            (VC_AT, modifier) => self.layout_get_value("At", modifier),

            (VC_3, modifier) => self.layout_get_value("3", modifier),
            (VC_HASH, modifier) => self.layout_get_value("Hash", modifier),

            (VC_4, modifier) => self.layout_get_value("4", modifier),
            (VC_DOLLAR, modifier) => self.layout_get_value("Dollar", modifier),

            (VC_5, modifier) => self.layout_get_value("5", modifier),
            (VC_PERCENT, modifier) => self.layout_get_value("Percent", modifier),

            (VC_6, modifier) => self.layout_get_value("6", modifier),
            (VC_CIRCUM, modifier) => self.layout_get_value("Circum", modifier),

            (VC_7, modifier) => self.layout_get_value("7", modifier),
            (VC_AMPERSAND, modifier) => self.layout_get_value("Ampersand", modifier),

            (VC_8, modifier) => self.layout_get_value("8", modifier),
            (VC_ASTERISK, modifier) => self.layout_get_value("Asterisk", modifier),

            (VC_9, modifier) => self.layout_get_value("9", modifier),
            (VC_PAREN_LEFT, modifier) => self.layout_get_value("ParenLeft", modifier),

            // Alphabets
            (VC_A, modifier) => self.layout_get_value("a", modifier),
            (VC_B, modifier) => self.layout_get_value("b", modifier),
            (VC_C, modifier) => self.layout_get_value("c", modifier),
            (VC_D, modifier) => self.layout_get_value("d", modifier),
            (VC_E, modifier) => self.layout_get_value("e", modifier),
            (VC_F, modifier) => self.layout_get_value("f", modifier),
            (VC_G, modifier) => self.layout_get_value("g", modifier),
            (VC_H, modifier) => self.layout_get_value("h", modifier),
            (VC_I, modifier) => self.layout_get_value("i", modifier),
            (VC_J, modifier) => self.layout_get_value("j", modifier),
            (VC_K, modifier) => self.layout_get_value("k", modifier),
            (VC_L, modifier) => self.layout_get_value("l", modifier),
            (VC_M, modifier) => self.layout_get_value("m", modifier),
            (VC_N, modifier) => self.layout_get_value("n", modifier),
            (VC_O, modifier) => self.layout_get_value("o", modifier),
            (VC_P, modifier) => self.layout_get_value("p", modifier),
            (VC_Q, modifier) => self.layout_get_value("q", modifier),
            (VC_R, modifier) => self.layout_get_value("r", modifier),
            (VC_S, modifier) => self.layout_get_value("s", modifier),
            (VC_T, modifier) => self.layout_get_value("t", modifier),
            (VC_U, modifier) => self.layout_get_value("u", modifier),
            (VC_V, modifier) => self.layout_get_value("v", modifier),
            (VC_W, modifier) => self.layout_get_value("w", modifier),
            (VC_X, modifier) => self.layout_get_value("x", modifier),
            (VC_Y, modifier) => self.layout_get_value("y", modifier),
            (VC_Z, modifier) => self.layout_get_value("z", modifier),

            (VC_A_SHIFT, modifier) => self.layout_get_value("A", modifier),
            (VC_B_SHIFT, modifier) => self.layout_get_value("B", modifier),
            (VC_C_SHIFT, modifier) => self.layout_get_value("C", modifier),
            (VC_D_SHIFT, modifier) => self.layout_get_value("D", modifier),
            (VC_E_SHIFT, modifier) => self.layout_get_value("E", modifier),
            (VC_F_SHIFT, modifier) => self.layout_get_value("F", modifier),
            (VC_G_SHIFT, modifier) => self.layout_get_value("G", modifier),
            (VC_H_SHIFT, modifier) => self.layout_get_value("H", modifier),
            (VC_I_SHIFT, modifier) => self.layout_get_value("I", modifier),
            (VC_J_SHIFT, modifier) => self.layout_get_value("J", modifier),
            (VC_K_SHIFT, modifier) => self.layout_get_value("K", modifier),
            (VC_L_SHIFT, modifier) => self.layout_get_value("L", modifier),
            (VC_M_SHIFT, modifier) => self.layout_get_value("M", modifier),
            (VC_N_SHIFT, modifier) => self.layout_get_value("N", modifier),
            (VC_O_SHIFT, modifier) => self.layout_get_value("O", modifier),
            (VC_P_SHIFT, modifier) => self.layout_get_value("P", modifier),
            (VC_Q_SHIFT, modifier) => self.layout_get_value("Q", modifier),
            (VC_R_SHIFT, modifier) => self.layout_get_value("R", modifier),
            (VC_S_SHIFT, modifier) => self.layout_get_value("S", modifier),
            (VC_T_SHIFT, modifier) => self.layout_get_value("T", modifier),
            (VC_U_SHIFT, modifier) => self.layout_get_value("U", modifier),
            (VC_V_SHIFT, modifier) => self.layout_get_value("V", modifier),
            (VC_W_SHIFT, modifier) => self.layout_get_value("W", modifier),
            (VC_X_SHIFT, modifier) => self.layout_get_value("X", modifier),
            (VC_Y_SHIFT, modifier) => self.layout_get_value("Y", modifier),
            (VC_Z_SHIFT, modifier) => self.layout_get_value("Z", modifier),

            // Other characters
            (VC_GRAVE, modifier) => self.layout_get_value("Grave", modifier),
            (VC_TILDE, modifier) => self.layout_get_value("Tilde", modifier),

            (VC_MINUS, modifier) => self.layout_get_value("Minus", modifier),
            (VC_UNDERSCORE, modifier) => self.layout_get_value("UnderScore", modifier),

            (VC_EQUALS, modifier) => self.layout_get_value("Equals", modifier),
            (VC_PLUS, modifier) => self.layout_get_value("Plus", modifier),

            (VC_BRACKET_LEFT, modifier) => self.layout_get_value("BracketLeft", modifier),
            (VC_BRACE_LEFT, modifier) => self.layout_get_value("BraceLeft", modifier),

            (VC_BRACKET_RIGHT, modifier) => self.layout_get_value("BracketRight", modifier),
            (VC_BRACE_RIGHT, modifier) => self.layout_get_value("BraceRight", modifier),

            (VC_BACK_SLASH, modifier) => self.layout_get_value("BackSlash", modifier),
            (VC_BAR, modifier) => self.layout_get_value("Bar", modifier),

            (VC_SEMICOLON, modifier) => self.layout_get_value("Semicolon", modifier),
            (VC_COLON, modifier) => self.layout_get_value("Colon", modifier),

            (VC_APOSTROPHE, modifier) => self.layout_get_value("Apostrophe", modifier),
            (VC_QUOTE, modifier) => self.layout_get_value("Quote", modifier),

            (VC_COMMA, modifier) => self.layout_get_value("Comma", modifier),
            (VC_LESS, modifier) => self.layout_get_value("Less", modifier),

            (VC_PERIOD, modifier) => self.layout_get_value("Period", modifier),
            (VC_GREATER, modifier) => self.layout_get_value("Greater", modifier),

            (VC_SLASH, modifier) => self.layout_get_value("Slash", modifier),
            (VC_QUESTION, modifier) => self.layout_get_value("Question", modifier),

            // NumPad
            (VC_KP_0, _) => self.layout_get_value_numpad("Num0", fixed_numpad),
            (VC_KP_1, _) => self.layout_get_value_numpad("Num1", fixed_numpad),
            (VC_KP_2, _) => self.layout_get_value_numpad("Num2", fixed_numpad),
            (VC_KP_3, _) => self.layout_get_value_numpad("Num3", fixed_numpad),
            (VC_KP_4, _) => self.layout_get_value_numpad("Num4", fixed_numpad),
            (VC_KP_5, _) => self.layout_get_value_numpad("Num5", fixed_numpad),
            (VC_KP_6, _) => self.layout_get_value_numpad("Num6", fixed_numpad),
            (VC_KP_7, _) => self.layout_get_value_numpad("Num7", fixed_numpad),
            (VC_KP_8, _) => self.layout_get_value_numpad("Num8", fixed_numpad),
            (VC_KP_9, _) => self.layout_get_value_numpad("Num9", fixed_numpad),
            (VC_KP_DIVIDE, _) => self.layout_get_value_numpad("NumDivide", fixed_numpad),
            (VC_KP_MULTIPLY, _) => self.layout_get_value_numpad("NumMultiply", fixed_numpad),
            (VC_KP_SUBTRACT, _) => self.layout_get_value_numpad("NumSubtract", fixed_numpad),
            (VC_KP_ADD, _) => self.layout_get_value_numpad("NumAdd", fixed_numpad),
            (VC_KP_DECIMAL, _) => self.layout_get_value_numpad("NumDecimal", fixed_numpad),

            _ => None,
        }
    }
}
fn main() {}
}