use vstd::prelude::*;
verus! {
pub struct Data; pub struct Config;
pub uninterp spec fn key_char(k: u16) -> Option<char>;
#[verifier::external_body]
pub fn keycode_to_char(key: u16) -> (r: char) requires key_char(key).is_some() ensures r == key_char(key).unwrap() { unimplemented!() }

pub enum Suggestion {
    Full {
        auxiliary: String,
        suggestions: Vec<String>,
        // Index of the last selected suggestion.
        selection: usize,
        // ANSI output
        ansi: bool,
    },
    Single {
        suggestion: String,
        // ANSI output
        ansi: bool,
    },
}
pub open spec fn sugg_ok(s: Suggestion, buf: Seq<char>) -> bool {
    match s { Suggestion::Full { auxiliary, suggestions, selection, ansi } => suggestions@.len() >= 1 && selection < suggestions@.len() && auxiliary@ == buf, Suggestion::Single { .. } => true }
}
pub struct PhoneticMethod { pub buffer: String }
impl PhoneticMethod {
    #[verifier::external_body]
    fn create_suggestion(&mut self, data: &Data, config: &Config) -> (r: Suggestion)
        ensures final(self).buffer == old(self).buffer, sugg_ok(r, old(self).buffer@)
    { unimplemented!() }

fn get_suggestion(
        &mut self,
        key: u16,
        _modifier: u8,
        selection: u8,
        data: &Data,
        config: &Config,
    ) -> (r: Suggestion)
        requires key_char(key).is_some()
        ensures final(self).buffer@ == old(self).buffer@.push(key_char(key).unwrap()), sugg_ok(r, final(self).buffer@)
    {
        let character = keycode_to_char(key);
        self.buffer.push(character);
        let mut suggestion = self.create_suggestion(data, config);

        // Preserve user's selection if the keypress was a punctuation mark
        if let Suggestion::Full {
            selection: ref mut sel,
            ..
        } = suggestion
        {
            if matches!(
                character,
                '.' | '?' | '!' | ',' | ':' | ';' | '-' | '_' | ')' | '}' | ']' | '\'' | '"'
            ) {
                *sel = selection.into();
            }
        }

        suggestion
    }
}
fn main() {}
}