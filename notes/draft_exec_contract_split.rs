use vstd::prelude::*;
verus! {

pub open spec fn meta_set() -> Seq<char> { seq!['-',']','~','!','@','#','%','&','*','(',')','_','=','+','[','{','}','\'','"',';','<','>','/','?','|','.',',','\u{0964}'] }
pub open spec fn meta(c: char) -> bool { meta_set().contains(c) }

pub open spec fn first_non_meta(s: Seq<char>) -> int
    decreases s.len()
{
    if s.len() == 0 { 0 } else if !meta(s[0]) { 0 } else { 1 + first_non_meta(s.drop_first()) }
}

// right-to-left automaton over rest[0..n); returns the cut index
pub open spec fn scan(rest: Seq<char>, n: int, escape: bool, colon: bool, last: int) -> int
    decreases n
{
    if n <= 0 { last } else {
        let c = rest[n - 1];
        if !escape && c == '`' { scan(rest, n - 1, true, colon, last) }
        else if ((colon || escape) && c == ':') || meta(c) { scan(rest, n - 1, false, colon, n - 1) }
        else { last }
    }
}

pub open spec fn split_spec(s: Seq<char>, colon: bool) -> (Seq<char>, Seq<char>, Seq<char>) {
    let f = first_non_meta(s);
    if f == s.len() { (s, Seq::<char>::empty(), Seq::<char>::empty()) }
    else {
        let rest = s.skip(f);
        let l = scan(rest, rest.len() as int, false, colon, rest.len() as int);
        (s.take(f), rest.take(l), rest.skip(l))
    }
}

pub open spec fn all_meta_plain(s: Seq<char>) -> bool { forall|i: int| 0 <= i < s.len() ==> meta(#[trigger] s[i]) && s[i] != '`' && s[i] != ':' }
pub open spec fn all_alnum(s: Seq<char>) -> bool { forall|i: int| 0 <= i < s.len() ==> !meta(#[trigger] s[i]) && s[i] != '`' && s[i] != ':' }

proof fn lemma_first_non_meta_bounds(s: Seq<char>)
    ensures 0 <= first_non_meta(s) <= s.len(),
            forall|i: int| 0 <= i < first_non_meta(s) ==> meta(#[trigger] s[i]),
            first_non_meta(s) < s.len() ==> !meta(s[first_non_meta(s)]),
    decreases s.len()
{
    if s.len() > 0 && meta(s[0]) {
        lemma_first_non_meta_bounds(s.drop_first());
        assert forall|i: int| 0 <= i < first_non_meta(s) implies meta(#[trigger] s[i]) by {
            if i > 0 { assert(s[i] == s.drop_first()[i - 1]); }
        }
    }
}

proof fn lemma_first_non_meta_wrap(lead: Seq<char>, rest: Seq<char>)
    requires all_meta_plain(lead), rest.len() > 0, !meta(rest[0]),
    ensures first_non_meta(lead + rest) == lead.len(),
    decreases lead.len()
{
    let s = lead + rest;
    if lead.len() == 0 {
        assert(s =~= rest);
    } else {
        assert(s[0] == lead[0]);
        assert(s.drop_first() =~= lead.drop_first() + rest);
        assert(all_meta_plain(lead.drop_first())) by {
            assert forall|i: int| 0 <= i < lead.drop_first().len() implies meta(#[trigger] lead.drop_first()[i]) && lead.drop_first()[i] != '`' && lead.drop_first()[i] != ':' by {
                assert(lead.drop_first()[i] == lead[i + 1]);
            }
        }
        lemma_first_non_meta_wrap(lead.drop_first(), rest);
    }
}


proof fn lemma_scan_from(word: Seq<char>, trail: Seq<char>, n: int, colon: bool)
    requires all_alnum(word), word.len() > 0, all_meta_plain(trail), word.len() <= n <= word.len() + trail.len(),
    ensures scan(word + trail, n, false, colon, n) == word.len(),
    decreases n
{
    let r = word + trail;
    if n == word.len() {
        assert(r[n - 1] == word[n - 1]);
    } else {
        assert(r[n - 1] == trail[n - 1 - word.len()]);
        lemma_scan_from(word, trail, n - 1, colon);
    }
}

pub proof fn lemma_split_wrap(lead: Seq<char>, word: Seq<char>, trail: Seq<char>, colon: bool)
    requires all_meta_plain(lead), all_alnum(word), word.len() > 0, all_meta_plain(trail),
    ensures split_spec(lead + word + trail, colon) == (lead, word, trail),
{
    let s = lead + word + trail;
    let rest = word + trail;
    assert(s =~= lead + rest);
    assert(rest[0] == word[0]);
    lemma_first_non_meta_wrap(lead, rest);
    assert(s.skip(lead.len() as int) =~= rest);
    assert(s.take(lead.len() as int) =~= lead);
    lemma_scan_from(word, trail, rest.len() as int, colon);
    assert(rest.take(word.len() as int) =~= word);
    assert(rest.skip(word.len() as int) =~= trail);
}

pub proof fn lemma_split_parts(s: Seq<char>, colon: bool)
    ensures ({ let (p, w, t) = split_spec(s, colon); p + w + t =~= s }),
{
    lemma_first_non_meta_bounds(s);
    let f = first_non_meta(s);
    if f < s.len() {
        let rest = s.skip(f);
        lemma_scan_bounds(rest, rest.len() as int, false, colon, rest.len() as int);
    }
}

proof fn lemma_scan_bounds(rest: Seq<char>, n: int, escape: bool, colon: bool, last: int)
    requires 0 <= n <= rest.len(), 0 <= last <= rest.len(),
    ensures 0 <= scan(rest, n, escape, colon, last) <= rest.len(),
    decreases n
{
    if n > 0 {
        let c = rest[n - 1];
        if !escape && c == '`' { lemma_scan_bounds(rest, n - 1, true, colon, last); }
        else if ((colon || escape) && c == ':') || meta(c) { lemma_scan_bounds(rest, n - 1, false, colon, n - 1); }
    }
}


//@ exec contracts (plain Rust + activated spec comments)
pub fn is_meta(c: char) -> (r: bool)
    ensures r == meta(c)
{
    let r = c == '-' || c == ']' || c == '~' || c == '!' || c == '@' || c == '#' || c == '%' || c == '&' || c == '*' || c == '(' || c == ')'
        || c == '_' || c == '=' || c == '+' || c == '[' || c == '{' || c == '}' || c == '\'' || c == '"' || c == ';' || c == '<' || c == '>'
        || c == '/' || c == '?' || c == '|' || c == '.' || c == ',' || c == '\u{0964}';
    proof {
        if r { assert(meta_set().contains(c)) by {
            let ms = meta_set();
            assert(ms[0]=='-' && ms[1]==']' && ms[2]=='~' && ms[3]=='!' && ms[4]=='@' && ms[5]=='#' && ms[6]=='%' && ms[7]=='&' && ms[8]=='*' && ms[9]=='(' && ms[10]==')' && ms[11]=='_' && ms[12]=='=' && ms[13]=='+' && ms[14]=='[' && ms[15]=='{' && ms[16]=='}' && ms[17]=='\'' && ms[18]=='"' && ms[19]==';' && ms[20]=='<' && ms[21]=='>' && ms[22]=='/' && ms[23]=='?' && ms[24]=='|' && ms[25]=='.' && ms[26]==',' && ms[27]=='\u{0964}');
        } }
    }
    r
}

pub fn first_non_meta_exec(s: &Vec<char>) -> (r: usize)
    ensures r == first_non_meta(s@)
{
    let mut i: usize = 0;
    proof { assert(s@.skip(0) =~= s@); }
    while i < s.len() && is_meta(s[i])
        invariant 0 <= i <= s.len(), first_non_meta(s@) == i + first_non_meta(s@.skip(i as int)),
        decreases s.len() - i
    {
        proof {
            let t = s@.skip(i as int);
            assert(t[0] == s@[i as int]);
            assert(t.drop_first() =~= s@.skip(i as int + 1));
        }
        i = i + 1;
    }
    proof {
        let t = s@.skip(i as int);
        if i < s.len() { assert(t[0] == s@[i as int]); } else { assert(t.len() == 0); }
        assert(s@.skip(0) =~= s@);
    }
    i
}

pub fn scan_exec(rest: &Vec<char>, colon: bool) -> (l: usize)
    ensures l == scan(rest@, rest@.len() as int, false, colon, rest@.len() as int)
{
    let mut n: usize = rest.len();
    let mut escape = false;
    let mut last: usize = rest.len();
    loop
        invariant 0 <= n <= rest.len(), 0 <= last <= rest.len(),
            scan(rest@, rest@.len() as int, false, colon, rest@.len() as int) == scan(rest@, n as int, escape, colon, last as int),
        ensures scan(rest@, rest@.len() as int, false, colon, rest@.len() as int) == last,
        decreases n
    {
        if n == 0 { proof { assert(scan(rest@, 0, escape, colon, last as int) == last); } break; }
        let c = rest[n - 1];
        if !escape && c == '`' { escape = true; n = n - 1; }
        else if ((colon || escape) && c == ':') || is_meta(c) { escape = false; last = n - 1; n = n - 1; }
        else { proof { assert(scan(rest@, n as int, escape, colon, last as int) == last); } break; }
    }
    last
}
fn main() {}
}
