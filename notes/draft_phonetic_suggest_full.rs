use vstd::prelude::*;
use vstd::std_specs::iter::IteratorSpec;
use std::{borrow::Cow, ops::Deref};
macro_rules! format { ("{}{}{}", $a:expr, $b:expr, $c:expr) => { concat3($a, $b, $c) }; }
use vstd::std_specs::hash::*;
use vstd::string::*;
use std::collections::HashMap;
use std::collections::hash_map::RandomState;
use std::ops::{RangeFrom, RangeTo, Range};
verus! {
global size_of usize == 8;
pub mod ax {
use vstd::prelude::*;
use vstd::std_specs::hash::*;
use vstd::string::*;
use std::ops::{RangeFrom, RangeTo, Range};
pub uninterp spec fn sview<V>(m: Map<String, V>) -> Map<Seq<char>, V>;
#[verifier::external_body] pub broadcast proof fn axiom_string_key_model() ensures #[trigger] obeys_key_model::<String>() {}
#[verifier::external_body] pub broadcast proof fn axiom_sview_contains<V>(m: Map<String, V>, k: &str)
    ensures #[trigger] contains_borrowed_key::<String, V, str>(m, k) == sview(m).contains_key(k@) {}
#[verifier::external_body] pub broadcast proof fn axiom_sview_maps<V>(m: Map<String, V>, k: &str, v: V)
    ensures #[trigger] maps_borrowed_key_to_value::<String, V, str>(m, k, v) == (sview(m).contains_key(k@) && sview(m)[k@] == v) {}
#[verifier::external_body] pub broadcast proof fn axiom_str_len_bound(s: &str) ensures (#[trigger] s.spec_bytes()).len() <= 0x1000_0000_0000_0000 {}
#[verifier::external_body] pub broadcast proof fn axiom_ascii_len(s: &str) requires s.is_ascii() ensures (#[trigger] s.spec_bytes()).len() == s@.len() {}
#[verifier::external_body] pub broadcast proof fn axiom_ascii_from_ok(idx: &RangeFrom<usize>, s: &str)
    requires s.is_ascii(), idx.start <= s@.len() ensures #[trigger] str_slice_in_bounds(idx, s) {}
#[verifier::external_body] pub broadcast proof fn axiom_ascii_to_ok(idx: &RangeTo<usize>, s: &str)
    requires s.is_ascii(), idx.end <= s@.len() ensures #[trigger] str_slice_in_bounds(idx, s) {}
pub uninterp spec fn str_index_rel<I, O: ?Sized>(s: &str, idx: I, r: &O) -> bool;
#[verifier::external_body] pub broadcast proof fn axiom_ascii_index_from(s: &str, idx: RangeFrom<usize>, r: &str)
    requires s.is_ascii(), idx.start <= s@.len(), #[trigger] str_index_rel(s, idx, r)
    ensures r@ == s@.skip(idx.start as int), r.is_ascii() {}
#[verifier::external_body] pub broadcast proof fn axiom_ascii_index_to(s: &str, idx: RangeTo<usize>, r: &str)
    requires s.is_ascii(), idx.end <= s@.len(), #[trigger] str_index_rel(s, idx, r)
    ensures r@ == s@.take(idx.end as int), r.is_ascii() {}
pub broadcast group group_ax { axiom_string_key_model, axiom_sview_contains, axiom_sview_maps, axiom_str_len_bound, axiom_ascii_len, axiom_ascii_from_ok, axiom_ascii_to_ok, axiom_ascii_index_from, axiom_ascii_index_to }
}
use ax::*;
broadcast use {ax::group_ax, group_hash_axioms};

pub assume_specification<I> [<str as std::ops::Index<I>>::index] (s: &str, idx: I) -> (r: &<I as std::slice::SliceIndex<str>>::Output)
    where I: std::slice::SliceIndex<str>,
    ensures ax::str_index_rel(s, idx, r);
pub assume_specification<'a> [<std::str::Chars<'a> as std::iter::Iterator>::last] (it: std::str::Chars<'a>) -> (r: std::option::Option<char>)
    ensures it.remaining().len() == 0 ==> r.is_none(), it.remaining().len() > 0 ==> r == Some(it.remaining().last());
pub assume_specification [String::with_capacity](n: usize) -> (r: String) ensures r@ == Seq::<char>::empty();

pub struct Data;
pub uninterp spec fn suffix_of(d: Data, k: Seq<char>) -> Option<Seq<char>>;
pub open spec fn data_wf(d: Data) -> bool { forall|k: Seq<char>| #[trigger] suffix_of(d, k).is_some() ==> suffix_of(d, k).unwrap().len() > 0 }
impl Data {
    #[verifier::external_body]
    pub fn find_suffix(&self, string: &str) -> (r: Option<&str>)
        ensures r.is_some() == suffix_of(*self, string@).is_some(), r.is_some() ==> r.unwrap()@ == suffix_of(*self, string@).unwrap()
    { unimplemented!() }
}
pub uninterp spec fn vowel_c(c: char) -> bool;
pub uninterp spec fn kar_c(c: char) -> bool;
pub trait Utility {
    spec fn vowel_spec(&self) -> bool; spec fn kar_spec(&self) -> bool;
    fn is_vowel(&self) -> (r: bool) ensures r == self.vowel_spec();
    fn is_kar(&self) -> (r: bool) ensures r == self.kar_spec();
}
impl Utility for char {
    open spec fn vowel_spec(&self) -> bool { vowel_c(*self) }
    open spec fn kar_spec(&self) -> bool { kar_c(*self) }
    #[verifier::external_body] fn is_vowel(&self) -> bool { unimplemented!() }
    #[verifier::external_body] fn is_kar(&self) -> bool { unimplemented!() }
}

pub open spec fn item(r: Rank) -> Seq<char> { match r { Rank::First(s) => s@, Rank::Emoji(s, _) => s@, Rank::Other(s, _) => s@, Rank::Last(s, _) => s@ } }
pub open spec fn tag(r: Rank) -> (int, int) { match r { Rank::First(_) => (0, 0), Rank::Emoji(_, e) => (1, e as int), Rank::Other(_, s) => (2, s as int), Rank::Last(_, s) => (3, s as int) } }
pub open spec fn rv(r: Rank) -> ((int, int), Seq<char>) { (tag(r), item(r)) }

pub open spec fn join(base: Seq<char>, suffix: Seq<char>) -> Seq<char>
    recommends base.len() > 0, suffix.len() > 0
{
    if vowel_c(base.last()) && kar_c(suffix[0]) { base.push('\u{09DF}') + suffix }
    else if base.last() == '\u{09CE}' { base.drop_last().push('\u{09A4}') + suffix }
    else if base.last() == '\u{0982}' { base.drop_last().push('\u{0999}') + suffix }
    else { base + suffix }
}
pub open spec fn joined(bases: Seq<Rank>, suffix: Seq<char>, upto: int) -> Seq<((int, int), Seq<char>)>
    decreases upto
{
    if upto <= 0 { Seq::empty() } else { joined(bases, suffix, upto - 1).push((tag(bases[upto - 1]), join(item(bases[upto - 1]), suffix))) }
}
pub open spec fn suffixed(middle: Seq<char>, cache: Map<Seq<char>, Vec<Rank>>, d: Data, upto: int) -> Seq<((int, int), Seq<char>)>
    decreases upto
{
    if upto <= 1 { Seq::empty() } else {
        let i = upto - 1;
        let prev = suffixed(middle, cache, d, upto - 1);
        if suffix_of(d, middle.skip(i)).is_some() && cache.contains_key(middle.take(i)) {
            prev + joined(cache[middle.take(i)]@, suffix_of(d, middle.skip(i)).unwrap(), cache[middle.take(i)]@.len() as int)
        } else { prev }
    }
}
pub open spec fn rvs(v: Seq<Rank>) -> Seq<((int, int), Seq<char>)> { v.map_values(|r: Rank| rv(r)) }
pub open spec fn cache_items_nonempty(cache: Map<Seq<char>, Vec<Rank>>) -> bool {
    forall|k: Seq<char>, j: int| #[trigger] cache.contains_key(k) && 0 <= j < cache[k]@.len() ==> item(#[trigger] cache[k]@[j]).len() > 0
}

pub enum Rank {
    First(String),
    Emoji(String, u8),
    Other(String, u8),
    Last(String, u8),
}
impl Clone for Rank { #[verifier::external_body] fn clone(&self) -> (r: Self) ensures r == *self { unimplemented!() } }
impl Rank {
pub fn to_string(&self) -> (r: &str) ensures r@ == item(*self) {
        match self {
            Rank::First(s) => s,
            Rank::Emoji(s, _) => s,
            Rank::Other(s, _) => s,
            Rank::Last(s, _) => s,
        }
    }
pub fn change_item(&mut self) -> (r: &mut String) ensures r@ == item(*old(self)), tag(*final(self)) == tag(*old(self)), item(*final(self)) == final(r)@ {
        match self {
            Rank::First(s) => s,
            Rank::Emoji(s, _) => s,
            Rank::Other(s, _) => s,
            Rank::Last(s, _) => s,
        }
    }
}


#[verifier::external_body]
pub fn concat3(a: &str, b: &str, c: &str) -> (r: String) ensures r@ == a@ + b@ + c@ { std::format!("{}{}{}", a, b, c) }

pub uninterp spec fn cow_deref_rel<B: ?Sized + ToOwned>(c: &Cow<'_, B>, r: &B) -> bool;
pub assume_specification<'a, 'b, B: ?Sized + ToOwned> [<Cow<'a, B> as Deref>::deref] (c: &'b Cow<'a, B>) -> (r: &'b B)
    ensures cow_deref_rel(c, r);
#[verifier::external_body]
pub broadcast proof fn axiom_cow_str_deref(c: &Cow<'_, str>, r: &str)
    requires #[trigger] cow_deref_rel(c, r) ensures r@ == c@ {}
#[verifier::external_body] pub broadcast proof fn axiom_sview_insert<V>(m: Map<String, V>, k: String, v: V)
    ensures #[trigger] sview(m.insert(k, v)) == sview(m).insert(k@, v) {}

pub uninterp spec fn slice_contains_spec<T>(s: Seq<T>, x: T) -> bool;
pub assume_specification<T> [<[T]>::contains] (s: &[T], x: &T) -> (r: bool)
    where T: std::cmp::PartialEq,
    ensures r == slice_contains_spec(s@, *x);
#[verifier::external_body]
pub broadcast proof fn axiom_rank_contains(s: Seq<Rank>, x: Rank)
    ensures #[trigger] slice_contains_spec(s, x) == (exists|i: int| 0 <= i < s.len() && item(#[trigger] s[i]) == item(x)) {}

pub struct Parser;
pub uninterp spec fn avro(s: Seq<char>) -> Seq<char>;
impl Parser {
    #[verifier::external_body]
    pub fn convert(&self, raw_input: &str) -> (r: String) ensures r@ == avro(raw_input@) { unimplemented!() }
    #[verifier::external_body]
    pub fn convert_into(&self, raw_input: &str, output: &mut String) ensures final(output)@ == avro(raw_input@) { unimplemented!() }
}
pub type RV = ((int, int), Seq<char>);
pub uninterp spec fn ac_of(ua: Map<Seq<char>, String>, d: Data, t: Seq<char>) -> Option<Seq<char>>;
pub uninterp spec fn dict_rv(word: Seq<char>, base: Seq<char>, d: Data) -> Seq<RV>;
pub open spec fn direct_rv(word: Seq<char>, ua: Map<Seq<char>, String>, d: Data) -> Seq<RV> {
    (match ac_of(ua, d, word) { Some(c) => seq![((0int, 0int), avro(c))], None => Seq::<RV>::empty() }) + dict_rv(word, avro(word), d)
}
pub open spec fn cache_ok(cm: Map<Seq<char>, Vec<Rank>>, ua: Map<Seq<char>, String>, d: Data) -> bool {
    forall|k: Seq<char>| #[trigger] cm.contains_key(k) ==> rvs(cm[k]@) == direct_rv(k, ua, d)
}
pub open spec fn direct_nonempty(ua: Map<Seq<char>, String>, d: Data) -> bool {
    forall|w: Seq<char>, i: int| 0 <= i < direct_rv(w, ua, d).len() ==> (#[trigger] direct_rv(w, ua, d)[i]).1.len() > 0
}
pub open spec fn pc(acc: Seq<RV>, x: RV) -> Seq<RV> {
    if exists|i: int| 0 <= i < acc.len() && (#[trigger] acc[i]).1 == x.1 { acc } else { acc.push(x) }
}
pub open spec fn pc_all(acc: Seq<RV>, xs: Seq<RV>, n: int) -> Seq<RV> decreases n {
    if n <= 0 { acc } else { pc(pc_all(acc, xs, n - 1), xs[n - 1]) }
}
pub open spec fn wrapv(v: Seq<RV>, p: Seq<char>, t: Seq<char>) -> Seq<RV> { v.map_values(|r: RV| (r.0, p + r.1 + t)) }

pub struct SplittedString<'a> {
    pub preceding: Cow<'a, str>,
    pub word: &'a str,
    pub trailing: Cow<'a, str>,
}
impl SplittedString<'_> {
pub fn preceding(&self) -> (r: &str) ensures r@ == self.preceding@ {
        broadcast use axiom_cow_str_deref;
        self.preceding.deref()
    }
pub fn word(&self) -> (r: &str) ensures r@ == self.word@ {
        broadcast use axiom_cow_str_deref;
        self.word
    }
pub fn trailing(&self) -> (r: &str) ensures r@ == self.trailing@ {
        broadcast use axiom_cow_str_deref;
        self.trailing.deref()
    }
}
pub fn push_checked<T: PartialEq>(vec: &mut Vec<T>, value: T)
    ensures final(vec)@ == (if slice_contains_spec(old(vec)@, value) { old(vec)@ } else { old(vec)@.push(value) })
{
    if !vec.contains(&value) {
        vec.push(value);
    }
}
use vstd::std_specs::cmp::PartialEqSpecImpl;
impl PartialEqSpecImpl for Rank {
    open spec fn obeys_eq_spec() -> bool { true }
    open spec fn eq_spec(&self, other: &Self) -> bool { item(*self) == item(*other) }
}
impl PartialEq for Rank {
    fn eq(&self, other: &Self) -> bool {
        self.to_string() == other.to_string()
    }
}
impl Rank {
pub fn first_ranked(item: String) -> (r: Self) ensures rv(r) == ((0int, 0int), item@) {
        Rank::First(item)
    }
pub fn last_ranked(item: String, rank: u8) -> (r: Self) ensures rv(r) == ((3int, rank as int), item@) {
        Rank::Last(item, rank)
    }
}
pub proof fn lemma_items_nonempty(cm: Map<Seq<char>, Vec<Rank>>, ua: Map<Seq<char>, String>, d: Data)
    requires cache_ok(cm, ua, d), direct_nonempty(ua, d)
    ensures cache_items_nonempty(cm)
{
    assert forall|k: Seq<char>, j: int| #[trigger] cm.contains_key(k) && 0 <= j < cm[k]@.len() implies item(#[trigger] cm[k]@[j]).len() > 0 by {
        assert(rvs(cm[k]@)[j] == rv(cm[k]@[j]));
        assert(direct_rv(k, ua, d)[j].1.len() > 0);
    }
}

pub struct Config { pub smart_quote: bool, pub ansi: bool, pub include_english: bool }
impl Config {
    pub fn get_smart_quote(&self) -> (r: bool) ensures r == self.smart_quote { self.smart_quote }
    pub fn get_ansi_encoding(&self) -> (r: bool) ensures r == self.ansi { self.ansi }
    pub fn get_suggestion_include_english(&self) -> (r: bool) ensures r == (self.include_english && !self.ansi) {
        // Mutually exclusive
        self.include_english && !self.ansi
    }
}
pub uninterp spec fn split_spec(s: Seq<char>, colon: bool) -> (Seq<char>, Seq<char>, Seq<char>);
pub uninterp spec fn curl_open(s: Seq<char>) -> Seq<char>;
pub uninterp spec fn curl_close(s: Seq<char>) -> Seq<char>;
pub uninterp spec fn emoticon_of(d: Data, s: Seq<char>) -> Option<Seq<char>>;
pub uninterp spec fn emoji_named(d: Data, s: Seq<char>) -> Option<Seq<Seq<char>>>;
pub uninterp spec fn iter_items<I>(i: I) -> Seq<Seq<char>>;
pub uninterp spec fn sort_spec(s: Seq<Rank>) -> Seq<Rank>;
pub assume_specification<T> [<[T]>::sort] (v: &mut [T])
    where T: std::cmp::Ord,
    ensures final(v)@.len() == old(v)@.len();
pub open spec fn named_rv(es: Seq<Seq<char>>, p: Seq<char>, t: Seq<char>) -> Seq<RV> { Seq::new(es.len(), |k: int| ((1int, k + 1), p + es[k] + t)) }
pub open spec fn assembled(swd: Seq<RV>, term: Seq<char>, pre: Seq<char>, trail: Seq<char>, ansi: bool, english: bool, emo: Option<Seq<char>>, named: Option<Seq<Seq<char>>>) -> Seq<RV> {
    let a = if ansi { swd } else {
        match emo {
            Some(e) => (if term != pre { swd.push(((3int, 1int), term)) } else { swd }).push(((1int, 1int), e)),
            None => match named { Some(es) => swd + named_rv(es, pre, trail), None => swd },
        }
    };
    let typed_added = !ansi && emo.is_some();
    if english && !ansi && !typed_added && term != pre { a.push(((3int, 3int), term)) } else { a }
}
impl Data {
    #[verifier::external_body]
    pub fn get_emoji_by_emoticon(&self, emoticon: &str) -> (r: Option<&str>)
        ensures r.is_some() == emoticon_of(*self, emoticon@).is_some(), r.is_some() ==> r.unwrap()@ == emoticon_of(*self, emoticon@).unwrap()
    { unimplemented!() }
    #[verifier::external_body]
    pub fn get_emoji_by_name(&self, name: &str) -> (r: Option<impl Iterator<Item = &str>>)
        ensures r.is_some() == emoji_named(*self, name@).is_some(), r.is_some() ==> iter_items(r.unwrap()) == emoji_named(*self, name@).unwrap()
    { None::<std::vec::IntoIter<&str>> }
}
impl SplittedString<'_> {
    #[verifier::external_body]
    pub fn split(input: &str, include_colon: bool) -> (r: SplittedString)
        ensures (r.preceding@, r.word@, r.trailing@) == split_spec(input@, include_colon), input.is_ascii() ==> r.word.is_ascii()
    { unimplemented!() }
}
#[verifier::external_body]
pub fn smart_quoter(mut splitted: SplittedString) -> (r: SplittedString)
    ensures r.word == splitted.word,
        splitted.word@.len() == 0 ==> r.preceding@ == splitted.preceding@ && r.trailing@ == splitted.trailing@,
        splitted.word@.len() > 0 ==> r.preceding@ == curl_open(splitted.preceding@) && r.trailing@ == curl_close(splitted.trailing@)
{ unimplemented!() }
#[verifier::external_body]
fn hole_emoji_names<'a, I: Iterator<Item = &'a str>>(v: &mut Vec<Rank>, e: I, s: &SplittedString)
    ensures rvs(final(v)@) == rvs(old(v)@) + named_rv(iter_items(e), s.preceding@, s.trailing@)
{ unimplemented!() }

impl SplittedString<'_> {
pub fn map(&mut self, func: impl Fn(&str, &str) -> (String, String))
        requires forall|p: &str, t: &str| func.requires((p, t)),
        ensures
            final(self).word == old(self).word,
            exists|p: &str, t: &str, r: (String, String)| p@ == old(self).preceding@ && t@ == old(self).trailing@ && #[trigger] func.ensures((p, t), r)
                && final(self).preceding@ == r.0@ && final(self).trailing@ == r.1@,
    {
        broadcast use axiom_cow_str_deref;
        let (p, t) = (func)(self.preceding.deref(), self.trailing.deref());
        self.preceding = Cow::Owned(p);
        self.trailing = Cow::Owned(t);
    }
}
impl Rank {
pub fn emoji(item: String) -> (r: Self) ensures rv(r) == ((1int, 1int), item@) {
        Rank::Emoji(item, 1)
    }
}
use std::cmp::Ordering;
use vstd::std_specs::cmp::{OrdSpecImpl, PartialOrdSpecImpl};
pub open spec fn rank_cmp(a: Rank, b: Rank) -> Ordering {
    match (a, b) {
        (Rank::Emoji(_, _), Rank::Emoji(_, _)) => Ordering::Equal,
        _ => { let ca = if tag(a).0 == 2 { 1int } else if tag(a).0 == 3 { 2int } else { tag(a).0 }; let cb = if tag(b).0 == 2 { 1int } else if tag(b).0 == 3 { 2int } else { tag(b).0 };
             if ca < cb { Ordering::Less } else if ca > cb { Ordering::Greater }
             else if tag(a).1 < tag(b).1 { Ordering::Less } else if tag(a).1 > tag(b).1 { Ordering::Greater } else { Ordering::Equal } }
    }
}
impl OrdSpecImpl for Rank {
    open spec fn obeys_cmp_spec() -> bool { true }
    open spec fn cmp_spec(&self, other: &Self) -> Ordering { rank_cmp(*self, *other) }
}
impl PartialOrdSpecImpl for Rank {
    open spec fn obeys_partial_cmp_spec() -> bool { true }
    open spec fn partial_cmp_spec(&self, other: &Self) -> Option<Ordering> { Some(rank_cmp(*self, *other)) }
}
impl Ord for Rank {
    fn cmp(&self, other: &Self) -> Ordering {
        match (self, other) {
            (Rank::First(_), Rank::First(_)) => Ordering::Equal,
            (Rank::First(_), Rank::Emoji(_, _)) => Ordering::Less,
            (Rank::Emoji(_, _), Rank::First(_)) => Ordering::Greater,
            (Rank::First(_), Rank::Other(_, _)) => Ordering::Less,
            (Rank::Other(_, _), Rank::First(_)) => Ordering::Greater,
            (Rank::First(_), Rank::Last(_, _)) => Ordering::Less,
            (Rank::Last(_, _), Rank::First(_)) => Ordering::Greater,

            (Rank::Emoji(_, _), Rank::Emoji(_, _)) => Ordering::Equal,
            (Rank::Emoji(_, e), Rank::Other(_, s)) => e.cmp(s),
            (Rank::Other(_, s), Rank::Emoji(_, e)) => s.cmp(e),
            (Rank::Emoji(_, _), Rank::Last(_, _)) => Ordering::Less,
            (Rank::Last(_, _), Rank::Emoji(_, _)) => Ordering::Greater,

            (Rank::Other(_, s1), Rank::Other(_, s2)) => s1.cmp(s2),
            (Rank::Other(_, _), Rank::Last(_, _)) => Ordering::Less,
            (Rank::Last(_, _), Rank::Other(_, _)) => Ordering::Greater,

            (Rank::Last(_, s1), Rank::Last(_, s2)) => s1.cmp(s2),
        }
    }
}
impl PartialOrd for Rank {
    fn partial_cmp(&self, other: &Self) -> Option<Ordering> {
        Some(self.cmp(other))
    }
}
impl Eq for Rank {}
pub struct PhoneticSuggestion {
    pub suggestions: Vec<Rank>,
    pub pbuffer: String,
    pub cache: HashMap<String, Vec<Rank>, RandomState>,
    pub phonetic: Parser,
    pub user_autocorrect: HashMap<String, String, RandomState>,
}
impl PhoneticSuggestion {
fn add_suffix_to_suggestions(&mut self, middle: &str, data: &Data) -> (list: Vec<Rank>)
        requires middle.is_ascii(), data_wf(*data), cache_items_nonempty(sview(old(self).cache@)),
        ensures
            final(self).cache@ == old(self).cache@, final(self).suggestions == old(self).suggestions, final(self).pbuffer == old(self).pbuffer, final(self).user_autocorrect == old(self).user_autocorrect,
            rvs(list@) == (if sview(old(self).cache@).contains_key(middle@) { rvs(sview(old(self).cache@)[middle@]@) } else { Seq::empty() })
                + (if middle@.len() > 2 { suffixed(middle@, sview(old(self).cache@), *data, middle@.len() as int) } else { Seq::empty() }),
    {
        // Fill up the list with what we have from the cache.
        let mut list = self.cache.get(middle).cloned().unwrap_or_default();

        let ghost base0 = rvs(list@);
        let ghost cm = sview(self.cache@);
        if middle.len() > 2 {
            for i in it0: 1..middle.len()
                invariant
                    middle.is_ascii(), data_wf(*data), cache_items_nonempty(cm), cm == sview(self.cache@),
                    self.cache@ == old(self).cache@, self.suggestions == old(self).suggestions, self.pbuffer == old(self).pbuffer, self.user_autocorrect == old(self).user_autocorrect,
                    middle@.len() > 2,
                    rvs(list@) == base0 + suffixed(middle@, cm, *data, i as int),
            {
                let suffix_key = &middle[i..];

                if let Some(suffix) = data.find_suffix(suffix_key) {
                    let key = &middle[..(middle.len() - suffix_key.len())];
                    if let Some(cache) = self.cache.get(key) {
                        let ghost before = rvs(list@);
                        for base in it1: cache
                            invariant
                                suffix@ == suffix_of(*data, middle@.skip(i as int)).unwrap(), suffix@.len() > 0,
                                middle.is_ascii(),
                                forall|j: int| 0 <= j < cache@.len() ==> item(#[trigger] cache@[j]).len() > 0,
                                rvs(list@) == before + joined(cache@, suffix@, it1.index@ as int),
                        {
                            let base_rmc = base.to_string().chars().last().unwrap(); // Right most character.
                            let suffix_lmc = suffix.chars().next().unwrap(); // Left most character.
                            let mut word = String::with_capacity(middle.len() * 3);
                            word.push_str(base.to_string());
                            match base_rmc {
                                ch if ch.is_vowel() && suffix_lmc.is_kar() => {
                                    // Insert য় in between.
                                    word.push('য়');
                                }
                                'ৎ' => {
                                    // Replace ৎ with ত
                                    word.pop();
                                    word.push('ত');
                                }
                                'ং' => {
                                    // Replace ং with ঙ
                                    word.pop();
                                    word.push('ঙ');
                                }
                                _ => (),
                            }
                            word.push_str(suffix);

                            let mut new = base.clone();
                            // This changes the suggestion with the suffixed one while keeping the ranking intact.
                            *new.change_item() = word;
                            proof {
                                assert(word@ =~= join(item(*base), suffix@));
                                assert(rvs(list@.push(new)) =~= rvs(list@).push(rv(new)));
                            }
                            list.push(new);
                        }
                    }
                }
            }
        }

        list
    }

    #[verifier::external_body]
    pub fn search_corrected<'a>(&'a self, term: &str, data: &'a Data) -> (r: Option<&'a str>)
        ensures r.is_some() == ac_of(sview(self.user_autocorrect@), *data, term@).is_some(),
                r.is_some() ==> r.unwrap()@ == ac_of(sview(self.user_autocorrect@), *data, term@).unwrap()
    { unimplemented!() }
    #[verifier::external_body]
    pub fn include_from_dictionary(&mut self, word: &str, base: &str, suggestions: &mut Vec<Rank>, data: &Data)
        ensures rvs(final(suggestions)@) == rvs(old(suggestions)@) + dict_rv(word@, base@, *data),
                final(self).cache@ == old(self).cache@, final(self).suggestions == old(self).suggestions, final(self).pbuffer == old(self).pbuffer, final(self).user_autocorrect == old(self).user_autocorrect
    { unimplemented!() }

pub fn suggestion_with_dict(&mut self, string: &SplittedString, data: &Data)
        requires
            string.word.is_ascii(), data_wf(*data),
            cache_ok(sview(old(self).cache@), sview(old(self).user_autocorrect@), *data),
            direct_nonempty(sview(old(self).user_autocorrect@), *data),
        ensures
            final(self).user_autocorrect == old(self).user_autocorrect,
            final(self).suggestions@.len() >= 1,
            cache_ok(sview(final(self).cache@), sview(final(self).user_autocorrect@), *data),
            sview(final(self).cache@).contains_key(string.word@),
            forall|k: Seq<char>| sview(old(self).cache@).contains_key(k) ==> #[trigger] sview(final(self).cache@).contains_key(k) && sview(final(self).cache@)[k] == sview(old(self).cache@)[k],
            forall|k: Seq<char>| #[trigger] sview(final(self).cache@).contains_key(k) ==> sview(old(self).cache@).contains_key(k) || k == string.word@,
            ({
                let cm = sview(final(self).cache@);
                let w = string.word@;
                let l = rvs(cm[w]@) + (if w.len() > 2 { suffixed(w, cm, *data, w.len() as int) } else { Seq::empty() });
                rvs(final(self).suggestions@) == wrapv(pc(pc_all(Seq::empty(), l, l.len() as int), ((3int, 2int), avro(w))), string.preceding@, string.trailing@)
            }),
    {
        let ghost ua = sview(self.user_autocorrect@);
        let ghost cm0 = sview(self.cache@);
        self.suggestions.clear();

        self.phonetic.convert_into(string.word(), &mut self.pbuffer);

        let phonetic = self.pbuffer.clone();

        // We always cache the suggestions for future reuse and for adding suffix to the suggestions.
        if !self.cache.contains_key(string.word()) {
            let mut suggestions: Vec<Rank> = Vec::new();
            proof { assert(rvs(suggestions@) =~= Seq::<RV>::empty()); }

            // Auto Correct item.
            if let Some(correct) = self.search_corrected(string.word(), data) {
                let corrected = self.phonetic.convert(correct);
                // Treat it as the first priority.
                let ghost before = suggestions@;
                suggestions.push(Rank::first_ranked(corrected));
                proof { assert(rvs(suggestions@) =~= seq![((0int, 0int), avro(ac_of(ua, *data, string.word@).unwrap()))]); }
            }

            self.include_from_dictionary(string.word(), &phonetic, &mut suggestions, data);
            // Add the suggestions into the cache.
            proof { assert(rvs(suggestions@) =~= direct_rv(string.word@, ua, *data)); }
            let ghost sv = suggestions;
            self.cache.insert(string.word().to_string(), suggestions);
            proof {
                broadcast use axiom_sview_insert;
                assert(sview(self.cache@) == cm0.insert(string.word@, sv));
            }
        }

        proof {
            assert(cache_ok(sview(self.cache@), ua, *data));
            lemma_items_nonempty(sview(self.cache@), ua, *data);
        }
        let ghost cm = sview(self.cache@);
        let suffixed_suggestions = self.add_suffix_to_suggestions(string.word(), data);
        let ghost l = rvs(suffixed_suggestions@);
        proof { assert(self.suggestions@.len() == 0); assert(rvs(self.suggestions@) =~= Seq::<RV>::empty()); }

        // Middle Items: Dictionary suggestions
        for suggestion in it2: suffixed_suggestions
            invariant
                l == rvs(suffixed_suggestions@),
                rvs(self.suggestions@) == pc_all(Seq::<RV>::empty(), l, it2.index@ as int),
                sview(self.cache@) == cm, sview(self.user_autocorrect@) == ua, self.user_autocorrect == old(self).user_autocorrect,
                phonetic@ == avro(string.word@),
        {
            proof { broadcast use axiom_rank_contains; }
            let ghost before = self.suggestions@;
            push_checked(&mut self.suggestions, suggestion);
            proof {
                assert(l[it2.index@ as int] == rv(suggestion));
                assert(slice_contains_spec(before, suggestion) == (exists|i: int| 0 <= i < rvs(before).len() && (#[trigger] rvs(before)[i]).1 == rv(suggestion).1)) by {
                    if slice_contains_spec(before, suggestion) {
                        let i = choose|i: int| 0 <= i < before.len() && item(#[trigger] before[i]) == item(suggestion);
                        assert(rvs(before)[i].1 == rv(suggestion).1);
                    }
                    if exists|i: int| 0 <= i < rvs(before).len() && (#[trigger] rvs(before)[i]).1 == rv(suggestion).1 {
                        let i = choose|i: int| 0 <= i < rvs(before).len() && (#[trigger] rvs(before)[i]).1 == rv(suggestion).1;
                        assert(item(before[i]) == item(suggestion));
                    }
                }
                assert(rvs(self.suggestions@) =~= pc(rvs(before), rv(suggestion)));
            }
        }

        // Last Item: Phonetic
        let ghost before2 = self.suggestions@;
        let lastr = Rank::last_ranked(phonetic, 2);
        let ghost lastg = lastr;
        push_checked(&mut self.suggestions, lastr);
        let ghost core = self.suggestions@;
        proof {
            broadcast use axiom_rank_contains;
            assert(slice_contains_spec(before2, lastg) == (exists|i: int| 0 <= i < rvs(before2).len() && (#[trigger] rvs(before2)[i]).1 == rv(lastg).1)) by {
                if slice_contains_spec(before2, lastg) {
                    let i = choose|i: int| 0 <= i < before2.len() && item(#[trigger] before2[i]) == item(lastg);
                    assert(rvs(before2)[i].1 == rv(lastg).1);
                }
                if exists|i: int| 0 <= i < rvs(before2).len() && (#[trigger] rvs(before2)[i]).1 == rv(lastg).1 {
                    let i = choose|i: int| 0 <= i < rvs(before2).len() && (#[trigger] rvs(before2)[i]).1 == rv(lastg).1;
                    assert(item(before2[i]) == item(lastg));
                }
            }
            assert(rvs(core) =~= pc(rvs(before2), ((3int, 2int), avro(string.word@))));
            assert(core.len() >= 1);
        }

        // Add those preceding and trailing meta characters.
        if !string.preceding().is_empty() || !string.trailing().is_empty() {
            for item in it3: self.suggestions.iter_mut()
                invariant
                    it3.seq().len() == core.len(),
                    forall|j: int| 0 <= j < it3.seq().len() ==> *(#[trigger] it3.seq()[j]) == core[j],
                    forall|j: int| 0 <= j < it3.index@ ==> rv(*(#[trigger] final(it3.seq()[j]))) == (tag(core[j]), string.preceding@ + rv(core[j]).1 + string.trailing@),
            {
                *item.change_item() = format!(
                    "{}{}{}",
                    string.preceding(),
                    item.to_string(),
                    string.trailing()
                );
            }
            proof {
                assert(self.suggestions@.len() == core.len());
                assert(forall|j: int| 0 <= j < core.len() ==> rv(#[trigger] self.suggestions@[j]) == (tag(core[j]), string.preceding@ + item(core[j]) + string.trailing@));
                assert(rvs(self.suggestions@) =~= wrapv(rvs(core), string.preceding@, string.trailing@));
            }
        } else {
            proof {
                assert(rvs(self.suggestions@) =~= wrapv(rvs(core), string.preceding@, string.trailing@)) by {
                    assert forall|j: int| 0 <= j < core.len() implies rvs(self.suggestions@)[j] == wrapv(rvs(core), string.preceding@, string.trailing@)[j] by {
                        assert(string.preceding@ + item(core[j]) + string.trailing@ =~= item(core[j]));
                    }
                }
            }
        }
    }

    #[verifier::external_body]
    pub fn get_prev_selection(&self, string: &SplittedString, data: &Data, selections: &mut HashMap<String, String, RandomState>) -> (r: usize)
        ensures r == 0 || r < self.suggestions@.len()
    { unimplemented!() }
pub fn suggest(
        &mut self,
        term: &str,
        data: &Data,
        selections: &mut HashMap<String, String, RandomState>,
        config: &Config,
    ) -> (res: (Vec<Rank>, usize))
        requires
            term.is_ascii(), data_wf(*data),
            cache_ok(sview(old(self).cache@), sview(old(self).user_autocorrect@), *data),
            direct_nonempty(sview(old(self).user_autocorrect@), *data),
        ensures
            res.0@.len() >= 1, res.1 < res.0@.len(),
            cache_ok(sview(final(self).cache@), sview(final(self).user_autocorrect@), *data),
    {
        let mut string = SplittedString::split(term, false);
        let mut typed_added = false;

        // Convert preceding and trailing meta characters into Bengali(phonetic representation).
        string.map(|p: &str, t: &str| -> (r: (String, String)) ensures r.0@ == avro(p@), r.1@ == avro(t@) { (self.phonetic.convert(p), self.phonetic.convert(t)) });

        // Smart Quoting feature
        if config.get_smart_quote() {
            string = smart_quoter(string);
        }

        self.suggestion_with_dict(&string, data);

        // Emoji addition with corresponding emoticon (if ANSI mode is not enabled).
        if !config.get_ansi_encoding() {
            if let Some(emoji) = data.get_emoji_by_emoticon(term) {
                // Add the emoticon
                // Sometimes the emoticon is captured as preceding meta characters and already included.
                if term != string.preceding() {
                    self.suggestions.push(Rank::last_ranked(term.to_owned(), 1));
                }
                self.suggestions.push(Rank::emoji(emoji.to_owned()));
                // Mark that we have added the typed text already (as the emoticon).
                typed_added = true;
            } else if let Some(emojis) = data.get_emoji_by_name(string.word()) {
                // Emoji addition with it's name
                // Add preceding and trailing meta characters.
                let ghost bh = self.suggestions@;
                hole_emoji_names(&mut self.suggestions, emojis, &string);
                proof { assert(rvs(self.suggestions@).len() == self.suggestions@.len()); assert(rvs(bh).len() == bh.len()); }
            }
        }

        // Include written English word if the feature is enabled and it is not included already.
        // Avoid including meta character suggestion twice, so check `term` is not equal to the
        // captured preceding characters
        if config.get_suggestion_include_english() && !typed_added && term != string.preceding() {
            self.suggestions
                .push(Rank::last_ranked(term.to_string(), 3));
        }

        // Sort the suggestions.
        self.suggestions.sort();

        let selection = self.get_prev_selection(&string, data, selections);

        (self.suggestions.clone(), selection)
    }
}
fn main() {}
}
