use riti::config::Config;
use riti::context::RitiContext;
use riti::suggestion::Suggestion;
use std::ffi::CString;
use std::os::raw::c_char;
use std::panic::{catch_unwind, AssertUnwindSafe};

extern "C" {
    fn riti_config_new() -> *mut Config;
    fn riti_config_set_layout_file(ptr: *mut Config, path: *const c_char) -> bool;
    fn riti_config_set_database_dir(ptr: *mut Config, path: *const c_char) -> bool;
    fn riti_config_set_phonetic_suggestion(ptr: *mut Config, o: bool);
    fn riti_config_set_suggestion_include_english(ptr: *mut Config, o: bool);
}
trait CfgExt { fn xps(&mut self, o: bool); fn xen(&mut self, o: bool); }
impl CfgExt for Config {
    fn xps(&mut self, o: bool) { unsafe { riti_config_set_phonetic_suggestion(self as *mut Config, o) } }
    fn xen(&mut self, o: bool) { unsafe { riti_config_set_suggestion_include_english(self as *mut Config, o) } }
}

fn cfg(layout: &str) -> Config {
    unsafe {
        let p = riti_config_new();
        let l = CString::new(layout).unwrap();
        assert!(riti_config_set_layout_file(p, l.as_ptr()));
        let d = CString::new("/repo/data").unwrap();
        assert!(riti_config_set_database_dir(p, d.as_ptr()));
        *Box::from_raw(p)
    }
}

fn kc(c: char) -> u16 {
    match c {
        'a'..='z' => 0xA096 + (c as u16 - 'a' as u16),
        'A'..='Z' => 0xA0B4 + (c as u16 - 'A' as u16),
        '1'..='9' => 0x0002 + (c as u16 - '1' as u16),
        '0' => 0x000B,
        '`' => 0x0029, '~' => 0x0001, '!' => 0x003B, '@' => 0x003C, '#' => 0x003D, '$' => 0x003E, '%' => 0x003F,
        '^' => 0x0040, '&' => 0x0041, '*' => 0x0042, '(' => 0x0043, ')' => 0x0044, '_' => 0x0057, '+' => 0x0058,
        '-' => 0x000C, '=' => 0x000D, '[' => 0x001A, ']' => 0x001B, '\\' => 0x002B, '{' => 0x005B, '}' => 0x005C,
        '|' => 0x005D, ';' => 0x0027, '\'' => 0x0028, ',' => 0x0033, '.' => 0x0034, '/' => 0x0035, ':' => 0x0063,
        '"' => 0x0064, '<' => 0x0065, '>' => 0x0066, '?' => 0x0067,
        _ => panic!("no key for {c}"),
    }
}

fn show(s: &Suggestion) -> String {
    if s.is_lonely() { format!("Single({:?})", s.get_lonely_suggestion()) }
    else { format!("Full(aux={:?}, sel={}, {:?})", s.get_auxiliary_text(), s.previously_selected_index(), s.get_suggestions()) }
}

fn typ(ctx: &RitiContext, text: &str, sel: u8) -> Suggestion {
    let mut last = None;
    for c in text.chars() { last = Some(ctx.get_suggestion_for_key(kc(c), 0, sel)); }
    last.unwrap()
}

fn attempt(name: &str, f: impl FnOnce() -> String) {
    let r = catch_unwind(AssertUnwindSafe(f));
    match r { Ok(s) => println!("[{name}] OK: {s}"), Err(e) => println!("[{name}] PANIC: {:?}", e.downcast_ref::<String>().map(|s| s.as_str()).or(e.downcast_ref::<&str>().copied())) }
}

fn main() {
    std::panic::set_hook(Box::new(|_| {}));
    let tmp = std::env::var("FX_TMP").unwrap();
    std::env::set_var("XDG_DATA_HOME", &tmp);
    std::fs::create_dir_all(format!("{tmp}/openbangla-keyboard")).unwrap();
    let sel_file = format!("{tmp}/openbangla-keyboard/phonetic-candidate-selection.json");
    let ac_file = format!("{tmp}/openbangla-keyboard/autocorrect.json");
    let _ = std::fs::remove_file(&sel_file); let _ = std::fs::remove_file(&ac_file);

    // F1: keypad enter / equals in phonetic mode
    attempt("C01 phonetic VC_KP_ENTER", || { let mut c = cfg("avro_phonetic"); c.xps(true); let ctx = RitiContext::new_with_config(&c); show(&ctx.get_suggestion_for_key(0x0E1C, 0, 0)) });
    attempt("C01 phonetic VC_KP_EQUALS", || { let mut c = cfg("avro_phonetic"); c.xps(true); let ctx = RitiContext::new_with_config(&c); show(&ctx.get_suggestion_for_key(0x0E0D, 0, 0)) });

    // C02: selection out of range after ':'
    attempt("C02 selection after ':'", || {
        let mut c = cfg("avro_phonetic"); c.xps(true);
        let ctx = RitiContext::new_with_config(&c);
        let s = typ(&ctx, "cool", 0);
        let n = s.len();
        let s2 = ctx.get_suggestion_for_key(kc(':'), 0, (n - 1) as u8);
        format!("before len={n}; after {} => sel<len? {}", show(&s2), s2.previously_selected_index() < s2.len())
    });

    // C01(3): empty learned entry then suffix
    attempt("C01 empty learned value", || {
        let mut c = cfg("avro_phonetic"); c.xps(true);
        let ctx = RitiContext::new_with_config(&c);
        let s = typ(&ctx, ":)", 0);
        let idx = s.get_suggestions().iter().position(|x| x == ":)").unwrap();
        let before = show(&s);
        ctx.candidate_committed(idx);
        let stored = std::fs::read_to_string(&sel_file).unwrap_or_default();
        let s2 = typ(&ctx, ":e", 0);
        format!("{before}; stored={stored}; then {}", show(&s2))
    });
    let _ = std::fs::remove_file(&sel_file);

    // C07: duplicate for backslash with English on
    attempt("C07 duplicate '\\' with English", || {
        let mut c = cfg("avro_phonetic"); c.xps(true); c.xen(true);
        let ctx = RitiContext::new_with_config(&c);
        show(&typ(&ctx, "\\", 0))
    });
    attempt("C07 duplicate '$' with English", || {
        let mut c = cfg("avro_phonetic"); c.xps(true); c.xen(true);
        let ctx = RitiContext::new_with_config(&c);
        show(&typ(&ctx, "^", 0))
    });

    // C09: learned choice with smart quotes
    attempt("C09 smart-quote learned", || {
        let mut c = cfg("avro_phonetic"); c.xps(true); c.set_smart_quote(true);
        let ctx = RitiContext::new_with_config(&c);
        let s = typ(&ctx, "\"e\"", 0);
        let first = show(&s);
        ctx.candidate_committed(1);
        let stored = std::fs::read_to_string(&sel_file).unwrap_or_default();
        let s2 = typ(&ctx, "\"e\"", 0);
        format!("{first}; stored={stored}; retyped {}", show(&s2))
    });
    let _ = std::fs::remove_file(&sel_file);
    attempt("C09 plain learned (control)", || {
        let mut c = cfg("avro_phonetic"); c.xps(true); c.set_smart_quote(true);
        let ctx = RitiContext::new_with_config(&c);
        let s = typ(&ctx, "e", 0);
        let first = show(&s);
        ctx.candidate_committed(1);
        let s2 = typ(&ctx, "e", 0);
        format!("{first}; retyped {}", show(&s2))
    });
    let _ = std::fs::remove_file(&sel_file);

    // C10: corrupt selection file
    attempt("C10 truncated selection file", || { std::fs::write(&sel_file, "{\"a\":\"b").unwrap(); let mut c = cfg("avro_phonetic"); c.xps(true); let ctx = RitiContext::new_with_config(&c); show(&typ(&ctx, "a", 0)) });
    attempt("C10 wrong-shape selection file", || { std::fs::write(&sel_file, "[1,2]").unwrap(); let mut c = cfg("avro_phonetic"); c.xps(true); let ctx = RitiContext::new_with_config(&c); show(&typ(&ctx, "a", 0)) });
    let _ = std::fs::remove_file(&sel_file);
    attempt("C10 empty autocorrect file", || { std::fs::write(&ac_file, "").unwrap(); let mut c = cfg("avro_phonetic"); c.xps(true); let ctx = RitiContext::new_with_config(&c); show(&typ(&ctx, "a", 0)) });
    let _ = std::fs::remove_file(&ac_file);
    attempt("C10 user autocorrect empty value + suffix", || { std::fs::write(&ac_file, "{\"zzq\":\"\"}").unwrap(); let mut c = cfg("avro_phonetic"); c.xps(true); let ctx = RitiContext::new_with_config(&c); show(&typ(&ctx, "zzqe", 0)) });
    let _ = std::fs::remove_file(&ac_file);
    attempt("C10 unwritable dir on commit", || {
        let mut c = cfg("avro_phonetic"); c.xps(true);
        let ctx = RitiContext::new_with_config(&c);
        typ(&ctx, "e", 0);
        std::fs::remove_dir_all(format!("{tmp}/openbangla-keyboard")).unwrap();
        ctx.candidate_committed(1);
        "committed".to_string()
    });
    std::fs::create_dir_all(format!("{tmp}/openbangla-keyboard")).unwrap();

    // C11: stale cache after autocorrect reload
    attempt("C11 stale memo after user autocorrect edit", || {
        let mut c = cfg("avro_phonetic"); c.xps(true);
        let mut ctx = RitiContext::new_with_config(&c);
        let a = show(&typ(&ctx, "zzq", 0)); ctx.finish_input_session();
        std::thread::sleep(std::time::Duration::from_millis(1100));
        std::fs::write(&ac_file, "{\"zzq\":\"kotha\"}").unwrap();
        ctx.update_engine(&c);
        let b = show(&typ(&ctx, "zzq", 0)); ctx.finish_input_session();
        let fresh = RitiContext::new_with_config(&c);
        let f = show(&typ(&fresh, "zzq", 0));
        format!("before={a}; after update={b}; fresh={f}")
    });
    let _ = std::fs::remove_file(&ac_file);

    // Fixed-mode findings with a synthetic layout
    let lay = format!("{tmp}/synthetic.json");
    let mut v: serde_json::Value = serde_json::from_str(&std::fs::read_to_string("/repo/data/Probhat.json").unwrap()).unwrap();
    v["layout"]["Key_q_Normal"] = "র্".into();      // reph
    v["layout"]["Key_w_Normal"] = "্".into();       // hasanta
    v["layout"]["Key_e_Normal"] = "ি".into();       // i-kar
    v["layout"]["Key_r_Normal"] = "ুঁ".into();      // multi-codepoint kar-led value
    v["layout"]["Key_t_Normal"] = "ক".into();
    v["layout"]["Key_y_Normal"] = "্য".into();      // zo-fola
    v["layout"]["Key_u_Normal"] = "র".into();
    v["layout"]["Key_i_Normal"] = "ত".into();
    v["layout"]["Key_o_Normal"] = "ঁ".into();
    v["layout"]["Key_p_Normal"] = "া".into();
    std::fs::write(&lay, serde_json::to_string(&v).unwrap()).unwrap();

    attempt("C01/C13 reph on empty composition", || { let mut c = cfg(&lay); c.set_fixed_old_reph(true); let ctx = RitiContext::new_with_config(&c); show(&typ(&ctx, "q", 0)) });
    for w in ["uyq", "twwiq", "toq", "tpoq", "ttq", "twiq", "twipq", "twipoq", "pq", "tpq", "tppq", "towiq"] {
        attempt(&format!("C13 reph after {w}"), || { let mut c = cfg(&lay); c.set_fixed_old_reph(true); let ctx = RitiContext::new_with_config(&c); let before = show(&typ(&ctx, &w[..w.len()-1], 0)); format!("{before} -> {}", show(&typ(&ctx, "q", 0))) });
    }
    attempt("C04 multi-codepoint kar-led value, helpers off", || { let c = cfg(&lay); let ctx = RitiContext::new_with_config(&c); show(&typ(&ctx, "r", 0)) });
    attempt("C15/C01 ten-emoji Bengali name in fixed mode", || {
        let mut c = cfg("/repo/data/Probhat.json"); c.set_fixed_suggestion(true);
        let ctx = RitiContext::new_with_config(&c);
        let v: serde_json::Value = serde_json::from_str(&std::fs::read_to_string("/repo/data/Probhat.json").unwrap()).unwrap();
        let mut out = String::new();
        for ch in "\u{9b9}\u{9c3}\u{9a6}\u{9df}".chars() {
            let mut found = None;
            for (k, val) in v["layout"].as_object().unwrap() {
                if val.as_str().unwrap() == ch.to_string() && k.starts_with("Key_") { found = Some(k.clone()); break; }
            }
            let k = found.expect("no key");
            let modi: u8 = if k.ends_with("_AltGr") { 2 } else { 0 };
            let name = k.trim_start_matches("Key_").trim_end_matches("_Normal").trim_end_matches("_AltGr").to_string();
            let code = if name.len() == 1 { kc(name.chars().next().unwrap()) } else { match name.as_str() { "Less" => kc('<'), "Greater" => kc('>'), "Question" => kc('?'), "Colon" => kc(':'), "Quote" => kc('"'), "BraceLeft" => kc('{'), "BraceRight" => kc('}'), "Bar" => kc('|'), "Plus" => kc('+'), "UnderScore" => kc('_'), "Tilde" => kc('~'), "Exclaim" => kc('!'), "At" => kc('@'), "Hash" => kc('#'), "Dollar" => kc('$'), "Percent" => kc('%'), "Circum" => kc('^'), "Ampersand" => kc('&'), "Asterisk" => kc('*'), "ParenLeft" => kc('('), "ParenRight" => kc(')'), "Minus" => kc('-'), "Equals" => kc('='), "BracketLeft" => kc('['), "BracketRight" => kc(']'), "BackSlash" => kc('\\'), "Semicolon" => kc(';'), "Apostrophe" => kc('\''), "Comma" => kc(','), "Period" => kc('.'), "Slash" => kc('/'), "Grave" => kc('`'), _ => panic!("named key {name}") } };
            let s = ctx.get_suggestion_for_key(code, modi, 0);
            out = show(&s);
        }
        out
    });
    attempt("C06 typed leak after fused keys + backspace", || {
        let mut c = cfg(&lay); c.set_fixed_suggestion(true); c.xen(true);
        let ctx = RitiContext::new_with_config(&c);
        typ(&ctx, "we", 0);
        let b = ctx.backspace_event(false);
        let idle = !ctx.ongoing_input_session();
        let s = typ(&ctx, "t", 0);
        let fresh = RitiContext::new_with_config(&c);
        let f = typ(&fresh, "t", 0);
        format!("backspace empty={} idle={idle}; next word used={} fresh={}", b.is_empty(), show(&s), show(&f))
    });
}
