import re,sys
def lex_skip(src,i):
    """return index after a string/char/comment starting at i, or None"""
    if src.startswith('//',i):
        j=src.find('\n',i); return len(src) if j<0 else j
    if src.startswith('/*',i):
        d=1;j=i+2
        while d>0:
            if src.startswith('/*',j): d+=1;j+=2
            elif src.startswith('*/',j): d-=1;j+=2
            else: j+=1
        return j
    if src[i]=='"':
        j=i+1
        while src[j]!='"':
            if src[j]=='\\': j+=1
            j+=1
        return j+1
    m=re.match(r'r(#*)"',src[i:])
    if m and (i==0 or not (src[i-1].isalnum() or src[i-1]=='_')):
        end='"'+m.group(1); j=src.find(end,i+len(m.group(0))); return j+len(end)
    if src[i]=="'":
        m=re.match(r"'(\\.[^']*|[^'\\])'",src[i:])
        if m: return i+len(m.group(0))
        return i+1 # lifetime
    return None
def match_brace(src,i):
    assert src[i]=='{'
    d=0;j=i
    while True:
        k=lex_skip(src,j)
        if k is not None: j=k; continue
        c=src[j]
        if c=='{': d+=1
        elif c=='}':
            d-=1
            if d==0: return j
        j+=1
def find_item(src,pat,start=0):
    """find item whose header matches regex pat (outside comments/strings), return (start,end) incl body"""
    j=start
    rx=re.compile(pat)
    while j<len(src):
        k=lex_skip(src,j)
        if k is not None: j=k; continue
        m=rx.match(src,j)
        if m:
            # find opening brace or semicolon
            p=m.end()
            while True:
                k=lex_skip(src,p)
                if k is not None: p=k; continue
                if src[p]=='{':
                    e=match_brace(src,p); return (j,e+1,p)
                if src[p]==';': return (j,p+1,None)
                p+=1
        j+=1
    return None
def get_fn(path,name,impl=None):
    src=open(path).read()
    start=0
    if impl:
        s=find_item(src,impl)
        sub=src[s[0]:s[1]]
        r=find_item(sub,r'(pub(\([a-z]+\))?\s+)?(const\s+)?fn\s+'+name+r'\b')
        return sub[r[0]:r[1]]
    r=find_item(src,r'(pub(\([a-z]+\))?\s+)?(const\s+)?fn\s+'+name+r'\b')
    return src[r[0]:r[1]]
def get_item(path,pat):
    src=open(path).read()
    r=find_item(src,pat)
    return src[r[0]:r[1]]
if __name__=='__main__':
    print(get_fn(sys.argv[1],sys.argv[2],sys.argv[3] if len(sys.argv)>3 else None))
