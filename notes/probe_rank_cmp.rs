use vstd::prelude::*;
use std::cmp::Ordering;
use vstd::std_specs::cmp::*;
verus! {
pub enum Rank {
    First(String),
    Emoji(String, u8),
    Other(String, u8),
    Last(String, u8),
}
pub open spec fn cls(r: Rank) -> (int, int) {
    match r { Rank::First(_) => (0, 0), Rank::Emoji(_, e) => (1, e as int), Rank::Other(_, s) => (1, s as int), Rank::Last(_, s) => (2, s as int) }
}
pub open spec fn rank_cmp(a: Rank, b: Rank) -> Ordering {
    match (a, b) {
        (Rank::Emoji(_, _), Rank::Emoji(_, _)) => Ordering::Equal,
        _ => if cls(a).0 < cls(b).0 { Ordering::Less } else if cls(a).0 > cls(b).0 { Ordering::Greater }
             else if cls(a).1 < cls(b).1 { Ordering::Less } else if cls(a).1 > cls(b).1 { Ordering::Greater } else { Ordering::Equal }
    }
}
impl OrdSpecImpl for Rank {
    open spec fn obeys_cmp_spec() -> bool { true }
    open spec fn cmp_spec(&self, other: &Self) -> Ordering { rank_cmp(*self, *other) }
}
impl PartialOrdSpecImpl for Rank {
    open spec fn obeys_partial_cmp_spec() -> bool { true }
    open spec fn partial_cmp_spec(&self, other: &Self) -> Option<Ordering> { Some(rank_cmp(*self, *other)) }
}
impl PartialEqSpecImpl for Rank {
    open spec fn obeys_eq_spec() -> bool { true }
    open spec fn eq_spec(&self, other: &Self) -> bool { item(*self) == item(*other) }
}
pub open spec fn item(r: Rank) -> Seq<char> { match r { Rank::First(s) => s@, Rank::Emoji(s, _) => s@, Rank::Other(s, _) => s@, Rank::Last(s, _) => s@ } }

impl Rank {
    pub fn to_string(&self) -> (r: &str) ensures r@ == item(*self) {
        match self {
            Rank::First(s) => s,
            Rank::Emoji(s, _) => s,
            Rank::Other(s, _) => s,
            Rank::Last(s, _) => s,
        }
    }
}
impl Ord for Rank {
    fn cmp(&self, other: &Self) -> Ordering {
        match (self, other) {
            (Rank::First(_), Rank::First(_)) => Ordering::Equal,
            (Rank::First(_), Rank::Emoji(_, _)) => Ordering::Less,
            (Rank::Emoji(_, _), Rank::First(_)) => Ordering::Greater,
            (Rank::First(_), Rank::Other(_, _)) => Ordering::Less,
            (Rank::Other(_, _), Rank::First(_)) => Ordering::Greater,
            (Rank::First(_), Rank::Last(_, _)) => Ordering::Less,
            (Rank::Last(_, _), Rank::First(_)) => Ordering::Greater,

            (Rank::Emoji(_, _), Rank::Emoji(_, _)) => Ordering::Equal,
            (Rank::Emoji(_, e), Rank::Other(_, s)) => e.cmp(s),
            (Rank::Other(_, s), Rank::Emoji(_, e)) => s.cmp(e),
            (Rank::Emoji(_, _), Rank::Last(_, _)) => Ordering::Less,
            (Rank::Last(_, _), Rank::Emoji(_, _)) => Ordering::Greater,

            (Rank::Other(_, s1), Rank::Other(_, s2)) => s1.cmp(s2),
            (Rank::Other(_, _), Rank::Last(_, _)) => Ordering::Less,
            (Rank::Last(_, _), Rank::Other(_, _)) => Ordering::Greater,

            (Rank::Last(_, s1), Rank::Last(_, s2)) => s1.cmp(s2),
        }
    }
}

impl PartialOrd for Rank {
    fn partial_cmp(&self, other: &Self) -> Option<Ordering> {
        Some(self.cmp(other))
    }
}

impl PartialEq for Rank {
    fn eq(&self, other: &Self) -> bool {
        self.to_string() == other.to_string()
    }
}

impl Eq for Rank {}
fn main() {}
}
