use riti::config::Config;
use riti::context::RitiContext;
use riti::suggestion::Suggestion;
use std::ffi::CString;
use std::os::raw::c_char;
use std::panic::{catch_unwind, AssertUnwindSafe};

extern "C" {
    fn riti_config_new() -> *mut Config;
    fn riti_config_set_layout_file(ptr: *mut Config, path: *const c_char) -> bool;
    fn riti_config_set_database_dir(ptr: *mut Config, path: *const c_char) -> bool;
    fn riti_config_set_phonetic_suggestion(ptr: *mut Config, o: bool);
    fn riti_config_set_suggestion_include_english(ptr: *mut Config, o: bool);
}
trait CfgExt { fn xps(&mut self, o: bool); fn xen(&mut self, o: bool); }
impl CfgExt for Config {
    fn xps(&mut self, o: bool) { unsafe { riti_config_set_phonetic_suggestion(self as *mut Config, o) } }
    fn xen(&mut self, o: bool) { unsafe { riti_config_set_suggestion_include_english(self as *mut Config, o) } }
}

fn cfg(layout: &str) -> Config {
    unsafe {
        let p = riti_config_new();
        let l = CString::new(layout).unwrap();
        assert!(riti_config_set_layout_file(p, l.as_ptr()));
        let d = CString::new("/repo/data").unwrap();
        assert!(riti_config_set_database_dir(p, d.as_ptr()));
        *Box::from_raw(p)
    }
}

fn kc(c: char) -> u16 {
    match c {
        'a'..='z' => 0xA096 + (c as u16 - 'a' as u16),
        'A'..='Z' => 0xA0B4 + (c as u16 - 'A' as u16),
        '1'..='9' => 0x0002 + (c as u16 - '1' as u16),
        '0' => 0x000B,
        '`' => 0x0029, '~' => 0x0001, '!' => 0x003B, '@' => 0x003C, '#' => 0x003D, '$' => 0x003E, '%' => 0x003F,
        '^' => 0x0040, '&' => 0x0041, '*' => 0x0042, '(' => 0x0043, ')' => 0x0044, '_' => 0x0057, '+' => 0x0058,
        '-' => 0x000C, '=' => 0x000D, '[' => 0x001A, ']' => 0x001B, '\\' => 0x002B, '{' => 0x005B, '}' => 0x005C,
        '|' => 0x005D, ';' => 0x0027, '\'' => 0x0028, ',' => 0x0033, '.' => 0x0034, '/' => 0x0035, ':' => 0x0063,
        '"' => 0x0064, '<' => 0x0065, '>' => 0x0066, '?' => 0x0067,
        _ => panic!("no key for {c}"),
    }
}

fn show(s: &Suggestion) -> String {
    if s.is_lonely() { format!("Single({:?})", s.get_lonely_suggestion()) }
    else { format!("Full(aux={:?}, sel={}, {:?})", s.get_auxiliary_text(), s.previously_selected_index(), s.get_suggestions()) }
}

fn typ(ctx: &RitiContext, text: &str, sel: u8) -> Suggestion {
    let mut last = None;
    for c in text.chars() { last = Some(ctx.get_suggestion_for_key(kc(c), 0, sel)); }
    last.unwrap()
}

fn attempt(name: &str, f: impl FnOnce() -> String) {
    let r = catch_unwind(AssertUnwindSafe(f));
    match r { Ok(s) => println!("[{name}] OK: {s}"), Err(e) => println!("[{name}] PANIC: {:?}", e.downcast_ref::<String>().map(|s| s.as_str()).or(e.downcast_ref::<&str>().copied())) }
}

fn main() {
    std::panic::set_hook(Box::new(|_| {}));
    let tmp = std::env::var("FX_TMP").unwrap();
    std::env::set_var("XDG_DATA_HOME", &tmp);
    let lay = format!("{tmp}/synthetic.json");
    let mut v: serde_json::Value = serde_json::from_str(&std::fs::read_to_string("/repo/data/Probhat.json").unwrap()).unwrap();
    v["layout"]["Key_q_Normal"] = "র্".into();
    v["layout"]["Key_w_Normal"] = "্".into();
    v["layout"]["Key_e_Normal"] = "ি".into();
    v["layout"]["Key_t_Normal"] = "ক".into();
    v["layout"]["Key_y_Normal"] = "্য".into();
    v["layout"]["Key_u_Normal"] = "র".into();
    v["layout"]["Key_i_Normal"] = "ত".into();
    v["layout"]["Key_o_Normal"] = "ঁ".into();
    v["layout"]["Key_p_Normal"] = "া".into();
    v["layout"]["Key_a_Normal"] = "ে".into();
    v["layout"]["Key_s_Normal"] = "্র".into();
    v["layout"]["Key_d_Normal"] = "ৗ".into();
    v["layout"]["Key_f_Normal"] = "ু".into();
    std::fs::write(&lay, serde_json::to_string(&v).unwrap()).unwrap();
    // (typewriter order with option on, unicode order with option off)
    let cases = [("euy", "uye"), ("ety", "tye"), ("etwi", "twie"), ("ets", "tse"), ("atp", "tpa"), ("atd", "tda"), ("etwiwt","twiwte"), ("eto","teo"), ("euyo","uyeo"), ("tfeu", "tfue"), ("euwi","uwie")];
    for vowel in [false, true] { for chandra in [false, true] { for kar in [false, true] {
        for (tw, un) in cases.iter() {
            let mut c1 = cfg(&lay); c1.set_fixed_old_kar_order(true); c1.set_fixed_automatic_vowel(vowel); c1.set_fixed_automatic_chandra(chandra); c1.set_fixed_traditional_kar(kar);
            let mut c2 = cfg(&lay); c2.set_fixed_old_kar_order(false); c2.set_fixed_automatic_vowel(vowel); c2.set_fixed_automatic_chandra(chandra); c2.set_fixed_traditional_kar(kar);
            let a = RitiContext::new_with_config(&c1); let b = RitiContext::new_with_config(&c2);
            let ra = show(&typ(&a, tw, 0)); let rb = show(&typ(&b, un, 0));
            if ra != rb { println!("[C14 vowel={vowel} chandra={chandra} trad={kar}] typewriter {tw:?} -> {ra}   unicode {un:?} -> {rb}"); }
        }
    }}}
    println!("done");
}
