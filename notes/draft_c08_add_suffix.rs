use vstd::prelude::*;
use vstd::std_specs::iter::IteratorSpec;
use vstd::std_specs::hash::*;
use vstd::string::*;
use std::collections::HashMap;
use std::collections::hash_map::RandomState;
use std::ops::{RangeFrom, RangeTo, Range};
verus! {
global size_of usize == 8;
pub mod ax {
use vstd::prelude::*;
use vstd::std_specs::hash::*;
use vstd::string::*;
use std::ops::{RangeFrom, RangeTo, Range};
pub uninterp spec fn sview<V>(m: Map<String, V>) -> Map<Seq<char>, V>;
#[verifier::external_body] pub broadcast proof fn axiom_string_key_model() ensures #[trigger] obeys_key_model::<String>() {}
#[verifier::external_body] pub broadcast proof fn axiom_sview_contains<V>(m: Map<String, V>, k: &str)
    ensures #[trigger] contains_borrowed_key::<String, V, str>(m, k) == sview(m).contains_key(k@) {}
#[verifier::external_body] pub broadcast proof fn axiom_sview_maps<V>(m: Map<String, V>, k: &str, v: V)
    ensures #[trigger] maps_borrowed_key_to_value::<String, V, str>(m, k, v) == (sview(m).contains_key(k@) && sview(m)[k@] == v) {}
#[verifier::external_body] pub broadcast proof fn axiom_str_len_bound(s: &str) ensures (#[trigger] s.spec_bytes()).len() <= 0x1000_0000_0000_0000 {}
#[verifier::external_body] pub broadcast proof fn axiom_ascii_len(s: &str) requires s.is_ascii() ensures (#[trigger] s.spec_bytes()).len() == s@.len() {}
#[verifier::external_body] pub broadcast proof fn axiom_ascii_from_ok(idx: &RangeFrom<usize>, s: &str)
    requires s.is_ascii(), idx.start <= s@.len() ensures #[trigger] str_slice_in_bounds(idx, s) {}
#[verifier::external_body] pub broadcast proof fn axiom_ascii_to_ok(idx: &RangeTo<usize>, s: &str)
    requires s.is_ascii(), idx.end <= s@.len() ensures #[trigger] str_slice_in_bounds(idx, s) {}
pub uninterp spec fn str_index_rel<I, O: ?Sized>(s: &str, idx: I, r: &O) -> bool;
#[verifier::external_body] pub broadcast proof fn axiom_ascii_index_from(s: &str, idx: RangeFrom<usize>, r: &str)
    requires s.is_ascii(), idx.start <= s@.len(), #[trigger] str_index_rel(s, idx, r)
    ensures r@ == s@.skip(idx.start as int), r.is_ascii() {}
#[verifier::external_body] pub broadcast proof fn axiom_ascii_index_to(s: &str, idx: RangeTo<usize>, r: &str)
    requires s.is_ascii(), idx.end <= s@.len(), #[trigger] str_index_rel(s, idx, r)
    ensures r@ == s@.take(idx.end as int), r.is_ascii() {}
pub broadcast group group_ax { axiom_string_key_model, axiom_sview_contains, axiom_sview_maps, axiom_str_len_bound, axiom_ascii_len, axiom_ascii_from_ok, axiom_ascii_to_ok, axiom_ascii_index_from, axiom_ascii_index_to }
}
use ax::*;
broadcast use {ax::group_ax, group_hash_axioms};

pub assume_specification<I> [<str as std::ops::Index<I>>::index] (s: &str, idx: I) -> (r: &<I as std::slice::SliceIndex<str>>::Output)
    where I: std::slice::SliceIndex<str>,
    ensures ax::str_index_rel(s, idx, r);
pub assume_specification<'a> [<std::str::Chars<'a> as std::iter::Iterator>::last] (it: std::str::Chars<'a>) -> (r: std::option::Option<char>)
    ensures it.remaining().len() == 0 ==> r.is_none(), it.remaining().len() > 0 ==> r == Some(it.remaining().last());
pub assume_specification [String::with_capacity](n: usize) -> (r: String) ensures r@ == Seq::<char>::empty();

pub struct Data;
pub uninterp spec fn suffix_of(d: Data, k: Seq<char>) -> Option<Seq<char>>;
pub open spec fn data_wf(d: Data) -> bool { forall|k: Seq<char>| #[trigger] suffix_of(d, k).is_some() ==> suffix_of(d, k).unwrap().len() > 0 }
impl Data {
    #[verifier::external_body]
    pub fn find_suffix(&self, string: &str) -> (r: Option<&str>)
        ensures r.is_some() == suffix_of(*self, string@).is_some(), r.is_some() ==> r.unwrap()@ == suffix_of(*self, string@).unwrap()
    { unimplemented!() }
}
pub uninterp spec fn vowel_c(c: char) -> bool;
pub uninterp spec fn kar_c(c: char) -> bool;
pub trait Utility {
    spec fn vowel_spec(&self) -> bool; spec fn kar_spec(&self) -> bool;
    fn is_vowel(&self) -> (r: bool) ensures r == self.vowel_spec();
    fn is_kar(&self) -> (r: bool) ensures r == self.kar_spec();
}
impl Utility for char {
    open spec fn vowel_spec(&self) -> bool { vowel_c(*self) }
    open spec fn kar_spec(&self) -> bool { kar_c(*self) }
    #[verifier::external_body] fn is_vowel(&self) -> bool { unimplemented!() }
    #[verifier::external_body] fn is_kar(&self) -> bool { unimplemented!() }
}

pub open spec fn item(r: Rank) -> Seq<char> { match r { Rank::First(s) => s@, Rank::Emoji(s, _) => s@, Rank::Other(s, _) => s@, Rank::Last(s, _) => s@ } }
pub open spec fn tag(r: Rank) -> (int, int) { match r { Rank::First(_) => (0, 0), Rank::Emoji(_, e) => (1, e as int), Rank::Other(_, s) => (2, s as int), Rank::Last(_, s) => (3, s as int) } }
pub open spec fn rv(r: Rank) -> ((int, int), Seq<char>) { (tag(r), item(r)) }

pub open spec fn join(base: Seq<char>, suffix: Seq<char>) -> Seq<char>
    recommends base.len() > 0, suffix.len() > 0
{
    if vowel_c(base.last()) && kar_c(suffix[0]) { base.push('\u{09DF}') + suffix }
    else if base.last() == '\u{09CE}' { base.drop_last().push('\u{09A4}') + suffix }
    else if base.last() == '\u{0982}' { base.drop_last().push('\u{0999}') + suffix }
    else { base + suffix }
}
pub open spec fn joined(bases: Seq<Rank>, suffix: Seq<char>, upto: int) -> Seq<((int, int), Seq<char>)>
    decreases upto
{
    if upto <= 0 { Seq::empty() } else { joined(bases, suffix, upto - 1).push((tag(bases[upto - 1]), join(item(bases[upto - 1]), suffix))) }
}
pub open spec fn suffixed(middle: Seq<char>, cache: Map<Seq<char>, Vec<Rank>>, d: Data, upto: int) -> Seq<((int, int), Seq<char>)>
    decreases upto
{
    if upto <= 1 { Seq::empty() } else {
        let i = upto - 1;
        let prev = suffixed(middle, cache, d, upto - 1);
        if suffix_of(d, middle.skip(i)).is_some() && cache.contains_key(middle.take(i)) {
            prev + joined(cache[middle.take(i)]@, suffix_of(d, middle.skip(i)).unwrap(), cache[middle.take(i)]@.len() as int)
        } else { prev }
    }
}
pub open spec fn rvs(v: Seq<Rank>) -> Seq<((int, int), Seq<char>)> { v.map_values(|r: Rank| rv(r)) }
pub open spec fn cache_items_nonempty(cache: Map<Seq<char>, Vec<Rank>>) -> bool {
    forall|k: Seq<char>, j: int| #[trigger] cache.contains_key(k) && 0 <= j < cache[k]@.len() ==> item(#[trigger] cache[k]@[j]).len() > 0
}

pub enum Rank {
    First(String),
    Emoji(String, u8),
    Other(String, u8),
    Last(String, u8),
}
impl Clone for Rank { #[verifier::external_body] fn clone(&self) -> (r: Self) ensures r == *self { unimplemented!() } }
impl Rank {
pub fn to_string(&self) -> (r: &str) ensures r@ == item(*self) {
        match self {
            Rank::First(s) => s,
            Rank::Emoji(s, _) => s,
            Rank::Other(s, _) => s,
            Rank::Last(s, _) => s,
        }
    }
pub fn change_item(&mut self) -> (r: &mut String) ensures r@ == item(*old(self)), tag(*final(self)) == tag(*old(self)), item(*final(self)) == final(r)@ {
        match self {
            Rank::First(s) => s,
            Rank::Emoji(s, _) => s,
            Rank::Other(s, _) => s,
            Rank::Last(s, _) => s,
        }
    }
}
pub struct PhoneticSuggestion { pub cache: HashMap<String, Vec<Rank>, RandomState> }
impl PhoneticSuggestion {
fn add_suffix_to_suggestions(&mut self, middle: &str, data: &Data) -> (list: Vec<Rank>)
        requires middle.is_ascii(), data_wf(*data), cache_items_nonempty(sview(old(self).cache@)),
        ensures
            final(self).cache@ == old(self).cache@,
            rvs(list@) == (if sview(old(self).cache@).contains_key(middle@) { rvs(sview(old(self).cache@)[middle@]@) } else { Seq::empty() })
                + (if middle@.len() > 2 { suffixed(middle@, sview(old(self).cache@), *data, middle@.len() as int) } else { Seq::empty() }),
    {
        // Fill up the list with what we have from the cache.
        let mut list = self.cache.get(middle).cloned().unwrap_or_default();

        let ghost base0 = rvs(list@);
        let ghost cm = sview(self.cache@);
        if middle.len() > 2 {
            for i in it0: 1..middle.len()
                invariant
                    middle.is_ascii(), data_wf(*data), cache_items_nonempty(cm), cm == sview(self.cache@),
                    self.cache@ == old(self).cache@,
                    middle@.len() > 2,
                    rvs(list@) == base0 + suffixed(middle@, cm, *data, i as int),
            {
                let suffix_key = &middle[i..];

                if let Some(suffix) = data.find_suffix(suffix_key) {
                    let key = &middle[..(middle.len() - suffix_key.len())];
                    if let Some(cache) = self.cache.get(key) {
                        let ghost before = rvs(list@);
                        for base in it1: cache
                            invariant
                                suffix@ == suffix_of(*data, middle@.skip(i as int)).unwrap(), suffix@.len() > 0,
                                middle.is_ascii(),
                                forall|j: int| 0 <= j < cache@.len() ==> item(#[trigger] cache@[j]).len() > 0,
                                rvs(list@) == before + joined(cache@, suffix@, it1.index@ as int),
                        {
                            let base_rmc = base.to_string().chars().last().unwrap(); // Right most character.
                            let suffix_lmc = suffix.chars().next().unwrap(); // Left most character.
                            let mut word = String::with_capacity(middle.len() * 3);
                            word.push_str(base.to_string());
                            match base_rmc {
                                ch if ch.is_vowel() && suffix_lmc.is_kar() => {
                                    // Insert য় in between.
                                    word.push('য়');
                                }
                                'ৎ' => {
                                    // Replace ৎ with ত
                                    word.pop();
                                    word.push('ত');
                                }
                                'ং' => {
                                    // Replace ং with ঙ
                                    word.pop();
                                    word.push('ঙ');
                                }
                                _ => (),
                            }
                            word.push_str(suffix);

                            let mut new = base.clone();
                            // This changes the suggestion with the suffixed one while keeping the ranking intact.
                            *new.change_item() = word;
                            proof {
                                assert(word@ =~= join(item(*base), suffix@));
                                assert(rvs(list@.push(new)) =~= rvs(list@).push(rv(new)));
                            }
                            list.push(new);
                        }
                    }
                }
            }
        }

        list
    }
}
fn main() {}
}