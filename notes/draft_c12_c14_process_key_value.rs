use vstd::prelude::*;
use vstd::std_specs::iter::IteratorSpec;
verus! {

pub assume_specification<'a> [<std::str::Chars<'a> as std::iter::Iterator>::last] (it: std::str::Chars<'a>) -> (r: std::option::Option<char>)
    ensures
        it.remaining().len() == 0 ==> r.is_none(),
        it.remaining().len() > 0 ==> r == Some(it.remaining().last()),
;


pub uninterp spec fn pat_contains<P>(hay: Seq<char>, p: P) -> bool;

pub assume_specification<P> [str::contains::<P>] (s: &str, p: P) -> (r: bool)
    where P: std::str::pattern::Pattern,
    ensures r == pat_contains::<P>(s@, p);

#[verifier::external_body]
pub broadcast proof fn axiom_pat_contains_char(hay: Seq<char>, c: char)
    ensures #[trigger] pat_contains::<char>(hay, c) == hay.contains(c)
{}

pub assume_specification<'a> [<std::str::Chars<'a> as std::iter::Iterator>::count] (it: std::str::Chars<'a>) -> (r: usize)
    ensures r == it.remaining().len();

pub assume_specification<I> [<std::iter::Rev<I> as std::iter::Iterator>::nth] (it: &mut std::iter::Rev<I>, n: usize) -> (r: Option<<I as std::iter::Iterator>::Item>)
    where I: std::iter::DoubleEndedIterator
    ensures
        n < old(it).remaining().len() ==> r == Some(old(it).remaining()[n as int]),
        n >= old(it).remaining().len() ==> r.is_none();



pub open spec fn kars() -> Seq<char> { seq!['\u{09BE}','\u{09BF}','\u{09C0}','\u{09C1}','\u{09C2}','\u{09C3}','\u{09C7}','\u{09C8}','\u{09CB}','\u{09CC}','\u{09C4}'] }
pub open spec fn is_kar_c(c: char) -> bool { kars().contains(c) }
pub open spec fn vowels() -> Seq<char> { seq!['\u{0985}','\u{0986}','\u{0987}','\u{0988}','\u{0989}','\u{098A}','\u{098B}','\u{098F}','\u{0990}','\u{0993}','\u{0994}','\u{098C}','\u{09E1}','\u{09BE}','\u{09BF}','\u{09C0}','\u{09C1}','\u{09C2}','\u{09C3}','\u{09C7}','\u{09C8}','\u{09CB}','\u{09CC}'] }
pub open spec fn is_vowel_c(c: char) -> bool { vowels().contains(c) }
pub open spec fn last_or_nul(s: Seq<char>) -> char { if s.len() > 0 { s.last() } else { '\0' } }
pub open spec fn to_vowel(k: char) -> Option<char> {
    if k == '\u{09BE}' { Some('\u{0986}') } else if k == '\u{09BF}' { Some('\u{0987}') } else if k == '\u{09C0}' { Some('\u{0988}') }
    else if k == '\u{09C1}' { Some('\u{0989}') } else if k == '\u{09C2}' { Some('\u{098A}') } else if k == '\u{09C3}' { Some('\u{098B}') }
    else if k == '\u{09C7}' { Some('\u{098F}') } else if k == '\u{09C8}' { Some('\u{0990}') } else if k == '\u{09CB}' { Some('\u{0993}') }
    else if k == '\u{09CC}' { Some('\u{0994}') } else { None }
}
pub open spec fn marks_c(c: char) -> bool { MARKS@.contains(c) }
pub open spec fn consonants() -> Seq<char> { seq!['\u{0995}','\u{0996}','\u{0997}','\u{0998}','\u{0999}','\u{099A}','\u{099B}','\u{099C}','\u{099D}','\u{099E}','\u{099F}','\u{09A0}','\u{09A1}','\u{09A2}','\u{09A3}','\u{09A4}','\u{09A5}','\u{09A6}','\u{09A7}','\u{09A8}','\u{09AA}','\u{09AB}','\u{09AC}','\u{09AD}','\u{09AE}','\u{09AF}','\u{09B0}','\u{09B2}','\u{09B6}','\u{09B7}','\u{09B8}','\u{09B9}','\u{09CE}','\u{09DC}','\u{09DD}','\u{09DF}'] }
pub open spec fn consonant_c(c: char) -> bool { consonants().contains(c) }
pub uninterp spec fn reph_spec(b: Seq<char>) -> Seq<char>;

pub open spec fn c12(buf: Seq<char>, value: Seq<char>, vowel: bool, chandra: bool, trad: bool, old_reph: bool) -> Seq<char> {
    let rmc = last_or_nul(buf);
    if value == seq!['\u{09CD}', '\u{09AF}'] {
        if rmc == '\u{09B0}' && !(buf.len() >= 2 && buf[buf.len() - 2] == '\u{09CD}') { buf.push('\u{200D}') + value } else { buf + value }
    } else if value == seq!['\u{09B0}', '\u{09CD}'] && old_reph { reph_spec(buf) }
    else if value.len() > 0 && is_kar_c(value[0]) {
        let k = value[0];
        if vowel && (buf.len() == 0 || is_vowel_c(rmc) || marks_c(rmc)) { match to_vowel(k) { Some(v) => buf.push(v), None => buf } }
        else if chandra && rmc == '\u{0981}' { buf.drop_last().push(k).push('\u{0981}') }
        else if rmc == '\u{09CD}' { match to_vowel(k) { Some(v) => buf.drop_last().push(v), None => buf } }
        else if trad && consonant_c(rmc) { if k == '\u{09C1}' || k == '\u{09C2}' || k == '\u{09C3}' { buf.push('\u{200C}').push(k) } else { buf.push(k) } }
        else { buf.push(k) }
    } else if value.len() > 0 && value[0] == '\u{09CD}' && rmc == '\u{09CD}' { buf.push('\u{200C}') }
    else if value.len() > 0 && value[0] == '\u{09D7}' && rmc == '\u{09CD}' { buf.drop_last().push('\u{0994}') }
    else { buf + value }
}


pub open spec fn pk_char(p: PendingKar) -> char { match p { PendingKar::I => '\u{09BF}', PendingKar::E => '\u{09C7}', PendingKar::OI => '\u{09C8}' } }
pub open spec fn pk_vowel(p: PendingKar) -> char { match p { PendingKar::I => '\u{0987}', PendingKar::E => '\u{098F}', PendingKar::OI => '\u{0990}' } }
pub open spec fn left_kar(c: char) -> bool { c == '\u{09BF}' || c == '\u{09C7}' || c == '\u{09C8}' }
pub open spec fn to_pending(c: char) -> Option<PendingKar> { if c == '\u{09BF}' { Some(PendingKar::I) } else if c == '\u{09C7}' { Some(PendingKar::E) } else if c == '\u{09C8}' { Some(PendingKar::OI) } else { None } }
pub open spec fn kar_generic(buf: Seq<char>, rmc: char, k: char, vowel: bool, chandra: bool, trad: bool) -> Seq<char> {
    if vowel && (buf.len() == 0 || is_vowel_c(rmc) || marks_c(rmc)) { match to_vowel(k) { Some(v) => buf.push(v), None => buf } }
    else if chandra && rmc == '\u{0981}' { buf.drop_last().push(k).push('\u{0981}') }
    else if rmc == '\u{09CD}' { match to_vowel(k) { Some(v) => buf.drop_last().push(v), None => buf } }
    else if trad && consonant_c(rmc) { if k == '\u{09C1}' || k == '\u{09C2}' || k == '\u{09C3}' { buf.push('\u{200C}').push(k) } else { buf.push(k) } }
    else { buf.push(k) }
}
pub open spec fn step_on(buf: Seq<char>, pend: Option<PendingKar>, value: Seq<char>, vowel: bool, chandra: bool, trad: bool, old_reph: bool) -> (Seq<char>, Option<PendingKar>)
    decreases (if pend.is_some() { 1int } else { 0int })
{
    let rmc = last_or_nul(buf);
    if value == seq!['\u{09CD}', '\u{09AF}'] {
        let b1 = if rmc == '\u{09B0}' && !(buf.len() >= 2 && buf[buf.len() - 2] == '\u{09CD}') { buf.push('\u{200D}') } else { buf };
        if left_kar(rmc) && b1.len() > 0 { ((b1.drop_last() + value).push(b1.last()), pend) } else { (b1 + value, pend) }
    } else if value == seq!['\u{09B0}', '\u{09CD}'] && old_reph { (reph_spec(buf), pend) }
    else if value.len() > 0 && is_kar_c(value[0]) {
        let k = value[0];
        if rmc != '\u{09CD}' && left_kar(k) { (buf, to_pending(k)) }
        else if rmc == '\u{09C7}' && (k == '\u{09BE}' || k == '\u{09CC}') { (buf.drop_last().push(if k == '\u{09BE}' { '\u{09CB}' } else { '\u{09CC}' }), pend) }
        else if pend.is_some() {
            let pk = pend.unwrap();
            if rmc == '\u{09CD}' {
                let b2 = buf.drop_last().push(pk_char(pk)).push('\u{09CD}');
                (kar_generic(b2, '\u{09CD}', k, vowel, chandra, trad), None)
            } else {
                let b2 = if vowel && (buf.len() == 0 || is_vowel_c(rmc) || marks_c(rmc)) { buf.push(pk_vowel(pk)) } else { buf };
                step_on(b2, None, value, vowel, chandra, trad, old_reph)
            }
        } else { (kar_generic(buf, rmc, k, vowel, chandra, trad), pend) }
    }
    else if value.len() > 0 && value[0] == '\u{09CD}' && rmc == '\u{09CD}' { (buf.push('\u{200C}'), pend) }
    else if value.len() > 0 && value[0] == '\u{09D7}' && rmc == '\u{09CD}' { (buf.drop_last().push('\u{0994}'), pend) }
    else if value.len() > 0 && value[0] == '\u{09CD}' && left_kar(rmc) {
        if value.len() == 1 { (buf.drop_last().push('\u{09CD}'), to_pending(rmc)) } else { ((buf.drop_last() + value).push(rmc), pend) }
    }
    else if value.len() > 0 && rmc == '\u{09C7}' && value[0] == '\u{09D7}' { (buf.drop_last().push('\u{09CC}'), pend) }
    else if pend.is_some() {
        if value.len() > 0 && value.last() == '\u{09CD}' { (buf + value, pend) } else { ((buf + value).push(pk_char(pend.unwrap())), None) }
    }
    else { (buf + value, pend) }
}

pub open spec fn plain_consonant(c: char) -> bool { consonant_c(c) && !is_vowel_c(c) && !marks_c(c) && !is_kar_c(c) && c != '\u{09CD}' && c != '\u{09D7}' && c != '\u{0981}' }

// simplest syllable shape: left-standing sign + one consonant, typewriter order (option on) vs Unicode order (option off)
pub proof fn lemma_c14_left_kar_single_consonant(buf: Seq<char>, k: char, c: char, vowel: bool, chandra: bool, trad: bool, old_reph: bool)
    requires left_kar(k), plain_consonant(c), last_or_nul(buf) != '\u{09CD}',
    ensures ({
        let s1 = step_on(buf, None, seq![k], vowel, chandra, trad, old_reph);
        let s2 = step_on(s1.0, s1.1, seq![c], vowel, chandra, trad, old_reph);
        let u1 = c12(buf, seq![c], vowel, chandra, trad, old_reph);
        let u2 = c12(u1, seq![k], vowel, chandra, trad, old_reph);
        s2 == (u2, None::<PendingKar>)
    }),
{
    reveal_with_fuel(step_on, 2);
    assert(is_kar_c(k)) by { assert(kars()[1] == '\u{09BF}' && kars()[6] == '\u{09C7}' && kars()[7] == '\u{09C8}'); }
    assert(seq![k][0] == k && seq![c][0] == c && seq![c].last() == c);
    assert(seq![k].len() == 1 && seq![c].len() == 1);
    assert(!(seq![k] =~= seq!['\u{09CD}', '\u{09AF}']) && !(seq![c] =~= seq!['\u{09CD}', '\u{09AF}']));
    assert(!(seq![k] =~= seq!['\u{09B0}', '\u{09CD}']) && !(seq![c] =~= seq!['\u{09B0}', '\u{09CD}']));
    assert((buf + seq![c]).last() == c);
    assert(buf + seq![c] =~= buf.push(c));
    assert((buf + seq![c]).push(k) =~= buf.push(c).push(k));
}

pub const B_SIGN_ANJI: char = '\u{0980}';
pub const B_CHANDRA: char = '\u{0981}';
pub const B_ANUSHAR: char = '\u{0982}'; // BENGALI SIGN ANUSVARA
pub const B_BISHARGA: char = '\u{0983}'; // BENGALI SIGN VISARGA

/* Independent vowels */
pub const B_A: char = '\u{0985}';
pub const B_AA: char = '\u{0986}';
pub const B_I: char = '\u{0987}';
pub const B_II: char = '\u{0988}';
pub const B_U: char = '\u{0989}';
pub const B_UU: char = '\u{098A}';
pub const B_RRI: char = '\u{098B}'; // BENGALI LETTER VOCALIC R
pub const B_VOCALIC_L: char = '\u{098C}';
pub const B_E: char = '\u{098F}';
pub const B_OI: char = '\u{0990}'; // BENGALI LETTER AI
pub const B_O: char = '\u{0993}';
pub const B_OU: char = '\u{0994}';

/* Consonants */
pub const B_K: char = '\u{0995}';
pub const B_KH: char = '\u{0996}';
pub const B_G: char = '\u{0997}';
pub const B_GH: char = '\u{0998}';
pub const B_NGA: char = '\u{0999}';
pub const B_C: char = '\u{099A}';
pub const B_CH: char = '\u{099B}';
pub const B_J: char = '\u{099C}';
pub const B_JH: char = '\u{099D}';
pub const B_NYA: char = '\u{099E}';
pub const B_TT: char = '\u{099F}';
pub const B_TTH: char = '\u{09A0}';
pub const B_DD: char = '\u{09A1}';
pub const B_DDH: char = '\u{09A2}';
pub const B_NN: char = '\u{09A3}';
pub const B_T: char = '\u{09A4}';
pub const B_TH: char = '\u{09A5}';
pub const B_D: char = '\u{09A6}';
pub const B_DH: char = '\u{09A7}';
pub const B_N: char = '\u{09A8}';
pub const B_P: char = '\u{09AA}';
pub const B_PH: char = '\u{09AB}';
pub const B_B: char = '\u{09AC}';
pub const B_BH: char = '\u{09AD}';
pub const B_M: char = '\u{09AE}';
pub const B_Z: char = '\u{09AF}';
pub const B_R: char = '\u{09B0}';
pub const B_L: char = '\u{09B2}';
pub const B_SH: char = '\u{09B6}';
pub const B_SS: char = '\u{09B7}';
pub const B_S: char = '\u{09B8}';
pub const B_H: char = '\u{09B9}';

/* Various signs */
pub const B_SIGN_NUKTA: char = '\u{09BC}'; // for extending the alphabet to new letters
pub const B_SIGN_AVAGRAHA: char = '\u{09BD}';

/* Dependent vowel signs (kars) */
pub const B_AA_KAR: char = '\u{09BE}';
pub const B_I_KAR: char = '\u{09BF}';
pub const B_II_KAR: char = '\u{09C0}';
pub const B_U_KAR: char = '\u{09C1}';
pub const B_UU_KAR: char = '\u{09C2}';
pub const B_RRI_KAR: char = '\u{09C3}'; // BENGALI VOWEL SIGN VOCALIC R
pub const B_VOCALIC_RR: char = '\u{09C4}'; // BENGALI VOWEL SIGN VOCALIC RR
pub const B_E_KAR: char = '\u{09C7}';
pub const B_OI_KAR: char = '\u{09C8}';

/* Two-part dependent vowel signs */
pub const B_O_KAR: char = '\u{09CB}';
pub const B_OU_KAR: char = '\u{09CC}'; // BENGALI VOWEL SIGN AU

/* Virama or Hasant */
pub const B_HASANTA: char = '\u{09CD}';

/* Additional consonant */
pub const B_KHANDATTA: char = '\u{09CE}';

/* Sign */
pub const B_LENGTH_MARK: char = '\u{09D7}'; // BENGALI AU LENGTH MARK

/* Additional consonants */
pub const B_RR: char = '\u{09DC}'; // BENGALI LETTER RRA
pub const B_RH: char = '\u{09DD}'; // BENGALI LETTER RHA
pub const B_Y: char = '\u{09DF}'; // BENGALI LETTER YYA

/* Additional vowels for Sanskrit */
pub const B_SANSKRIT_RR: char = '\u{09E0}'; // BENGALI LETTER VOCALIC RR
pub const B_SANSKRIT_LL: char = '\u{09E1}'; // BENGALI LETTER VOCALIC LL
pub const B_SIGN_L: char = '\u{09E2}'; // BENGALI VOWEL SIGN VOCALIC L
pub const B_SIGN_LL: char = '\u{09E3}'; // BENGALI VOWEL SIGN VOCALIC LL

/* Reserved */
/****************************************************************
 * For viram punctuation, use the generic Indic 0964 and 0965.  *
 * Note that these punctuation marks are referred to as dahri   *
 * and double dahri in Bangla.                                  *
 ****************************************************************/
pub const B_DARI: char = '\u{0964}';
pub const B_DDARI: char = '\u{0965}';

/* Digits */
pub const B_0: char = '\u{09E6}';
pub const B_1: char = '\u{09E7}';
pub const B_2: char = '\u{09E8}';
pub const B_3: char = '\u{09E9}';
pub const B_4: char = '\u{09EA}';
pub const B_5: char = '\u{09EB}';
pub const B_6: char = '\u{09EC}';
pub const B_7: char = '\u{09ED}';
pub const B_8: char = '\u{09EE}';
pub const B_9: char = '\u{09EF}';

/* Additions for Assamese */
pub const B_RM: char = '\u{09F0}'; // BENGALI LETTER RA WITH MIDDLE DIAGONAL
pub const B_RL: char = '\u{09F1}'; // BENGALI LETTER RA WITH LOWER DIAGONAL

/* Currency signs */
pub const B_CRTAKA_M: char = '\u{09F2}'; // BENGALI RUPEE MARK = taka
pub const B_CRTAKA: char = '\u{09F3}'; // BENGALI RUPEE SIGN = Bangladeshi taka

/* Historic symbols for fractional values */
pub const B_CURRENCYNUMERATOR_ONE: char = '\u{09F4}';
pub const B_CURRENCYNUMERATOR_TWO: char = '\u{09F5}';
pub const B_CURRENCYNUMERATOR_THREE: char = '\u{09F6}';
pub const B_CURRENCYNUMERATOR_FOUR: char = '\u{09F7}';
pub const B_CURRENCYNUMERATOR_LESS: char = '\u{09F8}';
pub const B_CURRENCYNUMERATOR_SIXTEEN: char = '\u{09F9}';

/* Sign */
pub const B_SIGN_ISSHAR: char = '\u{09FA}';

/* Historic currency sign */
pub const B_CURRENCYGANDA: char = '\u{09FB}';

/* Unicode Addition */
pub const ZWJ: char = '\u{200D}';
pub const ZWNJ: char = '\u{200C}';

/// Is the provided `c` is a ligature making Kar?
pub fn is_ligature_making_kar(c: char) -> (r: bool) ensures r == (c == '\u{09C1}' || c == '\u{09C2}' || c == '\u{09C3}') {
    c == B_U_KAR || c == B_UU_KAR || c == B_RRI_KAR
}

pub struct Config {
    pub fixed_vowel: bool,
    pub fixed_chandra: bool,
    pub fixed_kar: bool,
    pub fixed_old_reph: bool,
    pub fixed_kar_order: bool,
    pub fixed_numpad: bool,
}
impl Config {
    /// Get the config's fixed vowel.
    pub fn get_fixed_automatic_vowel(&self) -> (r: bool) ensures r == self.fixed_vowel {
        self.fixed_vowel
    }

    /// Set the config's fixed vowel.
    pub fn set_fixed_automatic_vowel(&mut self, fixed_vowel: bool) {
        self.fixed_vowel = fixed_vowel;
    }

    /// Get the config's fixed chandra.
    pub fn get_fixed_automatic_chandra(&self) -> (r: bool) ensures r == self.fixed_chandra {
        self.fixed_chandra
    }

    /// Set the config's fixed chandra.
    pub fn set_fixed_automatic_chandra(&mut self, fixed_chandra: bool) {
        self.fixed_chandra = fixed_chandra;
    }

    /// Get the config's fixed kar.
    pub fn get_fixed_traditional_kar(&self) -> (r: bool) ensures r == self.fixed_kar {
        self.fixed_kar
    }

    /// Set the config's fixed kar.
    pub fn set_fixed_traditional_kar(&mut self, fixed_kar: bool) {
        self.fixed_kar = fixed_kar;
    }

    /// Get the config's fixed old reph.
    pub fn get_fixed_old_reph(&self) -> (r: bool) ensures r == self.fixed_old_reph {
        self.fixed_old_reph
    }

    /// Set the config's fixed old reph.
    pub fn set_fixed_old_reph(&mut self, fixed_old_reph: bool) {
        self.fixed_old_reph = fixed_old_reph;
    }

    /// Get the config's fixed numpad.
    pub fn get_fixed_numpad(&self) -> bool {
        self.fixed_numpad
    }

    /// Set the config's fixed numpad.
    pub fn set_fixed_numpad(&mut self, fixed_numpad: bool) {
        self.fixed_numpad = fixed_numpad;
    }

    /// Get the config's fixed kar order.
    pub fn get_fixed_old_kar_order(&self) -> (r: bool) ensures r == self.fixed_kar_order {
        self.fixed_kar_order
    }

    /// Set the config's fixed kar order.
    pub fn set_fixed_old_kar_order(&mut self, fixed_kar_order: bool) {
        self.fixed_kar_order = fixed_kar_order;
    }
}
pub const MARKS: &'static str = "`~!@#$%^+*-_=+\\|\"/;:,./?><()[]{}";

pub enum PendingKar {
    I,
    E,
    OI,
}

pub struct FixedMethod {
    pub buffer: String,
    pub typed: String,
    pub pending_kar: Option<PendingKar>,
}
/// Some utility functions which we implement on the `char` type.
pub trait Utility {
    /// Checks the char for a vowel character.
    fn is_vowel(&self) -> (r: bool) ensures r == self.vowel_spec();
    spec fn vowel_spec(&self) -> bool; spec fn kar_spec(&self) -> bool; spec fn cons_spec(&self) -> bool;
    /// Checks the char for a kar character.
    fn is_kar(&self) -> (r: bool) ensures r == self.kar_spec();
    /// Checks the char for a pure consonant character.
    fn is_pure_consonant(&self) -> (r: bool) ensures r == self.cons_spec();
}

impl Utility for char {
    open spec fn vowel_spec(&self) -> bool { is_vowel_c(*self) }
    open spec fn kar_spec(&self) -> bool { is_kar_c(*self) }
    open spec fn cons_spec(&self) -> bool { consonant_c(*self) }
    /// Checks the char for a vowel character.
    fn is_vowel(&self) -> bool {
        proof { broadcast use axiom_pat_contains_char; reveal_strlit("\u{0985}\u{0986}\u{0987}\u{0988}\u{0989}\u{098A}\u{098B}\u{098F}\u{0990}\u{0993}\u{0994}\u{098C}\u{09E1}\u{09BE}\u{09BF}\u{09C0}\u{09C1}\u{09C2}\u{09C3}\u{09C7}\u{09C8}\u{09CB}\u{09CC}"); assert("\u{0985}\u{0986}\u{0987}\u{0988}\u{0989}\u{098A}\u{098B}\u{098F}\u{0990}\u{0993}\u{0994}\u{098C}\u{09E1}\u{09BE}\u{09BF}\u{09C0}\u{09C1}\u{09C2}\u{09C3}\u{09C7}\u{09C8}\u{09CB}\u{09CC}"@ =~= vowels()); }
        "\u{0985}\u{0986}\u{0987}\u{0988}\u{0989}\u{098A}\u{098B}\u{098F}\u{0990}\u{0993}\u{0994}\u{098C}\u{09E1}\u{09BE}\u{09BF}\u{09C0}\u{09C1}\u{09C2}\u{09C3}\u{09C7}\u{09C8}\u{09CB}\u{09CC}".contains(*self)
    }

    /// Checks the char for a kar character.
    fn is_kar(&self) -> bool {
        proof { broadcast use axiom_pat_contains_char; reveal_strlit("\u{09BE}\u{09BF}\u{09C0}\u{09C1}\u{09C2}\u{09C3}\u{09C7}\u{09C8}\u{09CB}\u{09CC}\u{09C4}"); assert("\u{09BE}\u{09BF}\u{09C0}\u{09C1}\u{09C2}\u{09C3}\u{09C7}\u{09C8}\u{09CB}\u{09CC}\u{09C4}"@ =~= kars()); }
        "\u{09BE}\u{09BF}\u{09C0}\u{09C1}\u{09C2}\u{09C3}\u{09C7}\u{09C8}\u{09CB}\u{09CC}\u{09C4}"
            .contains(*self)
    }

    /// Checks the char for a pure consonant character.
    fn is_pure_consonant(&self) -> bool {
        proof { broadcast use axiom_pat_contains_char; reveal_strlit("\u{0995}\u{0996}\u{0997}\u{0998}\u{0999}\u{099A}\u{099B}\u{099C}\u{099D}\u{099E}\u{099F}\u{09A0}\u{09A1}\u{09A2}\u{09A3}\u{09A4}\u{09A5}\u{09A6}\u{09A7}\u{09A8}\u{09AA}\u{09AB}\u{09AC}\u{09AD}\u{09AE}\u{09AF}\u{09B0}\u{09B2}\u{09B6}\u{09B7}\u{09B8}\u{09B9}\u{09CE}\u{09DC}\u{09DD}\u{09DF}"); assert("\u{0995}\u{0996}\u{0997}\u{0998}\u{0999}\u{099A}\u{099B}\u{099C}\u{099D}\u{099E}\u{099F}\u{09A0}\u{09A1}\u{09A2}\u{09A3}\u{09A4}\u{09A5}\u{09A6}\u{09A7}\u{09A8}\u{09AA}\u{09AB}\u{09AC}\u{09AD}\u{09AE}\u{09AF}\u{09B0}\u{09B2}\u{09B6}\u{09B7}\u{09B8}\u{09B9}\u{09CE}\u{09DC}\u{09DD}\u{09DF}"@ =~= consonants()); }
        "\u{0995}\u{0996}\u{0997}\u{0998}\u{0999}\u{099A}\u{099B}\u{099C}\u{099D}\u{099E}\u{099F}\u{09A0}\u{09A1}\u{09A2}\u{09A3}\u{09A4}\u{09A5}\u{09A6}\u{09A7}\u{09A8}\u{09AA}\u{09AB}\u{09AC}\u{09AD}\u{09AE}\u{09AF}\u{09B0}\u{09B2}\u{09B6}\u{09B7}\u{09B8}\u{09B9}\u{09CE}\u{09DC}\u{09DD}\u{09DF}".contains(*self)
    }
}
impl FixedMethod {
    /// Processes the `value` of the pressed key and updates the method's
    /// internal buffer which will be used when creating suggestion.
    fn process_key_value(&mut self, value: &str, config: &Config)
        ensures
            !config.fixed_kar_order ==> final(self).buffer@ == c12(old(self).buffer@, value@, config.fixed_vowel, config.fixed_chandra, config.fixed_kar, config.fixed_old_reph) && final(self).pending_kar == old(self).pending_kar,
            config.fixed_kar_order ==> (final(self).buffer@, final(self).pending_kar) == step_on(old(self).buffer@, old(self).pending_kar, value@, config.fixed_vowel, config.fixed_chandra, config.fixed_kar, config.fixed_old_reph),
            final(self).typed == old(self).typed
        decreases (if old(self).pending_kar.is_some() { 1int } else { 0int })
    {

        proof {
            broadcast use axiom_pat_contains_char;
            reveal_strlit("\u{09CD}\u{09AF}");
            reveal_strlit("\u{09B0}\u{09CD}");
            assert("\u{09CD}\u{09AF}"@ =~= seq!['\u{09CD}', '\u{09AF}']);
            assert("\u{09B0}\u{09CD}"@ =~= seq!['\u{09B0}', '\u{09CD}']);
        }
        let rmc = self.buffer.chars().last().unwrap_or_default(); // Right most character

        // Zo-fola insertion
        if value == "\u{09CD}\u{09AF}" {
            // Check if র is not a part of a Ro-fola, if its not then add an ZWJ before
            // the Zo-fola to have the র‍্য form.
            if rmc == B_R && self.buffer.chars().rev().nth(1).unwrap_or_default() != B_HASANTA {
                self.buffer.push(ZWJ);
            }
            if config.get_fixed_old_kar_order() && is_left_standing_kar(rmc) {
                if let Some(kar) = self.buffer.pop() {
                    self.buffer.push_str(value);
                    self.buffer.push(kar);
                    return;
                }
            }
            self.buffer.push_str(value);
            return;
        }

        // Old style Reph insertion
        if value == "\u{09B0}\u{09CD}" && config.get_fixed_old_reph() {
            self.insert_old_style_reph();
            return;
        }

        if let Some(character) = value.chars().next() {
            // Kar insertion
            if character.is_kar() {
                // Old style Kar ordering
                if config.get_fixed_old_kar_order() {
                    // Capture left standing kar in pending_kar.
                    if rmc != B_HASANTA && is_left_standing_kar(character) {
                        self.pending_kar = match character {
                            B_I_KAR => Some(PendingKar::I),
                            B_E_KAR => Some(PendingKar::E),
                            B_OI_KAR => Some(PendingKar::OI),
                            _ => None,
                        };
                        return;
                    } else if rmc == B_E_KAR && (character == B_AA_KAR || character == B_OU_KAR) {
                        // Join two-part dependent vowel signs.
                        self.buffer.pop();
                        match character {
                            B_AA_KAR => self.buffer.push(B_O_KAR),
                            B_OU_KAR => self.buffer.push(B_OU_KAR),
                            _ => (),
                        }
                        return;
                    } else if let Some(left_standing_kar) = &self.pending_kar {
                        // Restore pending_kar.
                        if rmc == B_HASANTA {
                            self.buffer.pop();
                            self.buffer.push(match left_standing_kar {
                                PendingKar::E => B_E_KAR,
                                PendingKar::I => B_I_KAR,
                                PendingKar::OI => B_OI_KAR,
                            });
                            self.pending_kar = None;
                            self.buffer.push(B_HASANTA);
                        } else {
                            // Unexpected case, destroy pending_kar or
                            // form vowel from pending kar if applicable.
                            if config.get_fixed_automatic_vowel()
                                && (self.buffer.is_empty() || rmc.is_vowel() || MARKS.contains(rmc))
                            {
                                self.buffer.push(match left_standing_kar {
                                    PendingKar::E => B_E,
                                    PendingKar::I => B_I,
                                    PendingKar::OI => B_OI,
                                });
                            }
                            self.pending_kar = None;
                            self.process_key_value(value, config);
                            return;
                        }
                    }
                }
                // Automatic Vowel Forming
                if config.get_fixed_automatic_vowel()
                    && (self.buffer.is_empty() || rmc.is_vowel() || MARKS.contains(rmc))
                {
                    match character {
                        B_AA_KAR => self.buffer.push(B_AA),
                        B_I_KAR => self.buffer.push(B_I),
                        B_II_KAR => self.buffer.push(B_II),
                        B_U_KAR => self.buffer.push(B_U),
                        B_UU_KAR => self.buffer.push(B_UU),
                        B_RRI_KAR => self.buffer.push(B_RRI),
                        B_E_KAR => self.buffer.push(B_E),
                        B_OI_KAR => self.buffer.push(B_OI),
                        B_O_KAR => self.buffer.push(B_O),
                        B_OU_KAR => self.buffer.push(B_OU),
                        _ => (),
                    }
                } else if config.get_fixed_automatic_chandra() && rmc == B_CHANDRA {
                    // Automatic Fix of Chandra Position
                    self.buffer.pop();
                    self.buffer.push(character);
                    self.buffer.push(B_CHANDRA);
                } else if rmc == B_HASANTA {
                    // Vowel making with Hasanta + Kar
                    match character {
                        B_AA_KAR => {
                            self.buffer.pop();
                            self.buffer.push(B_AA);
                        }
                        B_I_KAR => {
                            self.buffer.pop();
                            self.buffer.push(B_I);
                        }
                        B_II_KAR => {
                            self.buffer.pop();
                            self.buffer.push(B_II);
                        }
                        B_U_KAR => {
                            self.buffer.pop();
                            self.buffer.push(B_U);
                        }
                        B_UU_KAR => {
                            self.buffer.pop();
                            self.buffer.push(B_UU);
                        }
                        B_RRI_KAR => {
                            self.buffer.pop();
                            self.buffer.push(B_RRI);
                        }
                        B_E_KAR => {
                            self.buffer.pop();
                            self.buffer.push(B_E);
                        }
                        B_OI_KAR => {
                            self.buffer.pop();
                            self.buffer.push(B_OI);
                        }
                        B_O_KAR => {
                            self.buffer.pop();
                            self.buffer.push(B_O);
                        }
                        B_OU_KAR => {
                            self.buffer.pop();
                            self.buffer.push(B_OU);
                        }
                        _ => (),
                    }
                } else if config.get_fixed_traditional_kar() && rmc.is_pure_consonant() {
                    // Traditional Kar Joining
                    // In UNICODE it is known as "Blocking Bengali Consonant-Vowel Ligature"
                    if is_ligature_making_kar(character) {
                        self.buffer.push(ZWNJ);
                    }
                    self.buffer.push(character);
                } else {
                    self.buffer.push(character);
                }
                return;
            }

            // Hasanta
            if character == B_HASANTA && rmc == B_HASANTA {
                self.buffer.push(ZWNJ);
                return;
            }

            // ঔ making with Hasanta + AU Length Mark
            if character == B_LENGTH_MARK && rmc == B_HASANTA {
                self.buffer.pop();
                self.buffer.push(B_OU);
                return;
            }

            // Old style Kar ordering
            if config.get_fixed_old_kar_order() {
                if character == B_HASANTA && is_left_standing_kar(rmc) {
                    if value.chars().count() == 1 {
                        self.pending_kar = match self.buffer.pop() {
                            Some(B_I_KAR) => Some(PendingKar::I),
                            Some(B_E_KAR) => Some(PendingKar::E),
                            Some(B_OI_KAR) => Some(PendingKar::OI),
                            _ => None,
                        };
                        self.buffer.push(character);
                    } else if let Some(kar) = self.buffer.pop() {
                        self.buffer.push_str(value);
                        self.buffer.push(kar);
                    }
                    return;
                } else if rmc == B_E_KAR && character == B_LENGTH_MARK {
                    self.buffer.pop();
                    self.buffer.push(B_OU_KAR);
                    return;
                }
            }
        }

        // Old style Kar ordering
        if config.get_fixed_old_kar_order() {
            if let Some(left_standing_kar) = &self.pending_kar {
                self.buffer.push_str(value);
                if let Some(B_HASANTA) = value.chars().last() {
                    // Continue to next consonant insertion if value ends with B_HASANTA,
                    // for example, if value is reph(র +  ্).
                    return;
                }
                self.buffer.push(match left_standing_kar {
                    PendingKar::E => B_E_KAR,
                    PendingKar::I => B_I_KAR,
                    PendingKar::OI => B_OI_KAR,
                });
                self.pending_kar = None;
                return;
            }
        }

        self.buffer.push_str(value);
    }
    #[verifier::external_body]
    fn insert_old_style_reph(&mut self) ensures final(self).buffer@ == reph_spec(old(self).buffer@), final(self).pending_kar == old(self).pending_kar, final(self).typed == old(self).typed { unimplemented!() }
}
/// Is the provided `c` is a left standing Kar?
fn is_left_standing_kar(c: char) -> (r: bool) ensures r == left_kar(c) {
    c == B_I_KAR || c == B_E_KAR || c == B_OI_KAR
}

fn main() {}
}
