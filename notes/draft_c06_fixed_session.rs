use vstd::prelude::*;
verus! {
pub struct Data; pub struct Config { pub fixed_suggestion: bool }
pub enum PendingKar { I, E, OI }
pub struct Suggestion { pub empty: bool }
impl Suggestion {
    #[verifier::external_body] pub fn empty() -> (r: Self) ensures r.empty { unimplemented!() }
}
pub struct FixedMethod { pub buffer: String, pub typed: String, pub pending_kar: Option<PendingKar> }
pub open spec fn is_reset(m: FixedMethod) -> bool { m.buffer@.len() == 0 && m.typed@.len() == 0 && m.pending_kar.is_none() }
pub open spec fn measure(m: FixedMethod) -> int { m.buffer@.len() + (if m.pending_kar.is_some() { 1int } else { 0int }) }
impl FixedMethod {
    #[verifier::external_body]
    fn create_suggestion(&mut self, data: &Data, config: &Config) -> (r: Suggestion)
        ensures final(self).buffer == old(self).buffer, final(self).typed == old(self).typed, final(self).pending_kar == old(self).pending_kar, !r.empty
    { unimplemented!() }

fn candidate_committed(&mut self, _index: usize, _cfg: &Config)
        ensures is_reset(*final(self))
    {
        self.buffer.clear();
        self.typed.clear();
        self.pending_kar = None;
    }
fn finish_input_session(&mut self)
        ensures is_reset(*final(self))
    {
        self.buffer.clear();
        self.typed.clear();
        self.pending_kar = None;
    }
fn ongoing_input_session(&self) -> (r: bool) ensures r == (measure(*self) > 0) {
        !self.buffer.is_empty() || self.pending_kar.is_some()
    }
fn backspace_event(&mut self, ctrl: bool, data: &Data, config: &Config) -> (r: Suggestion)
        ensures
            r.empty ==> is_reset(*final(self)),
            (ctrl && old(self).buffer@.len() > 0) ==> r.empty,
            measure(*old(self)) == 0 ==> r.empty && final(self).buffer == old(self).buffer && final(self).typed == old(self).typed && final(self).pending_kar == old(self).pending_kar,
            measure(*old(self)) > 0 ==> measure(*final(self)) < measure(*old(self)),
    {
        if ctrl && !self.buffer.is_empty() {
            // Whole word deletion: Ctrl + Backspace combination
            self.buffer.clear();
            self.typed.clear();
            self.pending_kar = None;
            return Suggestion::empty();
        }
        if self.pending_kar.is_some() {
            // Clear pending_kar.
            self.pending_kar = None;
            self.typed.pop();
            if self.buffer.is_empty() {
                return Suggestion::empty();
            }
            return self.create_suggestion(data, config);
        }
        if !self.buffer.is_empty() {
            // Remove the last character from buffer.
            self.buffer.pop();
            self.typed.pop();

            if self.buffer.is_empty() {
                // The buffer is now empty, so return empty suggestion.
                return Suggestion::empty();
            }

            self.create_suggestion(data, config)
        } else {
            Suggestion::empty()
        }
    }
}
fn main() {}
}