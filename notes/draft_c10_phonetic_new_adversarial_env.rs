use vstd::prelude::*;
use std::collections::HashMap;
use std::path::PathBuf;
verus! {
// ---- D8 stubs: environment (may fail / return anything) ----
#[verifier::external_type_specification] #[verifier::external_body] pub struct ExPathBuf(PathBuf);
#[verifier::external_type_specification] #[verifier::external_body] pub struct ExIoError(std::io::Error);
pub assume_specification<P: AsRef<std::path::Path>> [std::fs::read::<P>] (p: P) -> Result<Vec<u8>, std::io::Error>;
use std::collections::hash_map::RandomState;
pub assume_specification [std::hash::RandomState::new] () -> std::hash::RandomState;
pub assume_specification<K, V, S> [HashMap::<K, V, S>::with_hasher] (s: S) -> (r: HashMap<K, V, S>) ensures r@ == Map::<K, V>::empty();
pub struct File; pub struct Metadata;
#[derive(Debug)] pub struct IoErr;
pub struct SystemTime;
impl SystemTime { pub const UNIX_EPOCH: SystemTime = SystemTime; }
impl File {
    #[verifier::external_body] pub fn open(p: PathBuf) -> Result<File, IoErr> { unimplemented!() }
    #[verifier::external_body] pub fn metadata(&self) -> Result<Metadata, IoErr> { unimplemented!() }
}
impl Metadata { #[verifier::external_body] pub fn modified(&self) -> Result<SystemTime, IoErr> { unimplemented!() } }
pub mod serde_json {
    use vstd::prelude::*;
    use std::collections::HashMap;
    use std::collections::hash_map::RandomState;
    #[derive(Debug)] pub struct Error;
    #[verifier::external_body]
    pub fn from_slice(b: &[u8]) -> Result<HashMap<String, String, RandomState>, Error> { unimplemented!() }
}
#[verifier::external_body] pub fn read(file: &mut File) -> Vec<u8> { unimplemented!() }
pub assume_specification [String::with_capacity](n: usize) -> (r: String) ensures r@ == Seq::<char>::empty();
pub struct Config;
impl Config {
    #[verifier::external_body] pub fn get_user_phonetic_selection_data(&self) -> PathBuf { unimplemented!() }
    #[verifier::external_body] pub fn get_user_phonetic_autocorrect(&self) -> PathBuf { unimplemented!() }
}
pub struct PhoneticSuggestion { pub user_autocorrect: HashMap<String, String, RandomState> }
impl PhoneticSuggestion {
    #[verifier::external_body] pub fn new(user_autocorrect: HashMap<String, String, RandomState>) -> (r: Self) ensures r.user_autocorrect == user_autocorrect { unimplemented!() }
}

pub struct PhoneticMethod {
    buffer: String,
    suggestion: PhoneticSuggestion,
    // Candidate selections.
    selections: HashMap<String, String, RandomState>,
    // Last modification of the user's auto correct file.
    modified: SystemTime,
    // Previously selected candidate index of the current suggestion list.
    prev_selection: usize,
}
impl PhoneticMethod {
pub fn new(config: &Config) -> Self {
        // Load candidate selections file.
        let selections = if let Ok(file) = std::fs::read(config.get_user_phonetic_selection_data())
        {
            serde_json::from_slice(&file).unwrap()
        } else {
            HashMap::with_hasher(RandomState::new())
        };

        // Load user's auto correct file.
        let (modified, autocorrect) = {
            if let Ok(mut file) = File::open(config.get_user_phonetic_autocorrect()) {
                let modified = file.metadata().unwrap().modified().unwrap();
                let autocorrect = serde_json::from_slice(&read(&mut file)).unwrap();
                (modified, autocorrect)
            } else {
                (
                    SystemTime::UNIX_EPOCH,
                    HashMap::with_hasher(RandomState::new()),
                )
            }
        };

        PhoneticMethod {
            buffer: String::with_capacity(20),
            suggestion: PhoneticSuggestion::new(autocorrect),
            selections,
            modified,
            prev_selection: 0,
        }
    }
}
fn main() {}
}