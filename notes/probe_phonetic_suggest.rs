use vstd::prelude::*;
use vstd::std_specs::iter::IteratorSpec;
use std::collections::HashMap;
use std::{borrow::Cow, ops::Deref};
use std::cmp::Ordering;
verus! {

#[verifier::external_body]
pub fn edit_distance(a: &str, b: &str) -> usize { unimplemented!() }
use std::collections::hash_map::RandomState;

pub assume_specification<'a> [<std::str::Chars<'a> as std::iter::Iterator>::last] (it: std::str::Chars<'a>) -> (r: std::option::Option<char>)
    ensures
        it.remaining().len() == 0 ==> r.is_none(),
        it.remaining().len() > 0 ==> r == Some(it.remaining().last()),
;
pub uninterp spec fn slice_contains_spec<T>(s: Seq<T>, x: T) -> bool;
pub assume_specification<T> [<[T]>::contains] (s: &[T], x: &T) -> (r: bool)
    where T: std::cmp::PartialEq,
    ensures r == slice_contains_spec(s@, *x);
pub assume_specification [String::with_capacity](n: usize) -> (r: String)
    ensures r@ == Seq::<char>::empty();
pub assume_specification<'a, T, P> [<std::slice::Iter<'a, T> as std::iter::Iterator>::position] (it: &mut std::slice::Iter<'a, T>, p: P) -> (r: std::option::Option<usize>)
    where P: FnMut(&'a T) -> bool, std::slice::Iter<'a, T>: Sized,
    ensures r matches Some(i) ==> i < old(it).remaining().len();
pub assume_specification<T, F> [Option::<T>::or_else] (o: Option<T>, f: F) -> (r: Option<T>)
    where F: FnOnce() -> Option<T>,
    requires o.is_none() ==> f.requires(()),
    ensures o.is_some() ==> r == o, o.is_none() ==> f.ensures((), r);

pub uninterp spec fn sort_spec<T>(s: Seq<T>) -> Seq<T>;
pub assume_specification<T> [<[T]>::sort] (v: &mut [T])
    where T: std::cmp::Ord,
    ensures final(v)@ == sort_spec(old(v)@);
pub struct Parser;
pub struct Data;
pub struct Config;

pub trait Utility {
    fn is_vowel(&self) -> bool;
    fn is_kar(&self) -> bool;
}
impl Utility for char {
    #[verifier::external_body]
    fn is_vowel(&self) -> bool { unimplemented!() }
    #[verifier::external_body]
    fn is_kar(&self) -> bool { unimplemented!() }
}

pub struct SplittedString<'a> {
    preceding: Cow<'a, str>,
    word: &'a str,
    trailing: Cow<'a, str>,
}
impl SplittedString<'_> {
pub fn map(&mut self, func: impl Fn(&str, &str) -> (String, String)) {
        let (p, t) = (func)(self.preceding.deref(), self.trailing.deref());
        self.preceding = Cow::Owned(p);
        self.trailing = Cow::Owned(t);
    }
pub fn preceding(&self) -> &str {
        self.preceding.deref()
    }
pub fn word(&self) -> &str {
        self.word
    }
pub fn trailing(&self) -> &str {
        self.trailing.deref()
    }
pub fn as_tuple(&self) -> (&str, &str, &str) {
        (self.preceding(), self.word(), self.trailing())
    }
}
pub fn push_checked<T: PartialEq>(vec: &mut Vec<T>, value: T) {
    if !vec.contains(&value) {
        vec.push(value);
    }
}
impl Clone for Rank { #[verifier::external_body] fn clone(&self) -> (r: Self) ensures r == *self { unimplemented!() } }
pub enum Rank {
    First(String),
    Emoji(String, u8),
    Other(String, u8),
    Last(String, u8),
}
impl Rank {
    /// Returns the suggestion item.
    pub fn to_string(&self) -> &str {
        match self {
            Rank::First(s) => s,
            Rank::Emoji(s, _) => s,
            Rank::Other(s, _) => s,
            Rank::Last(s, _) => s,
        }
    }

    /// A first ranked suggestion.
    pub fn first_ranked(item: String) -> Self {
        Rank::First(item)
    }

    /// A suggestion with a ranking calculated according to the `base` word.
    ///
    /// Uses edit distance to rank the `item`.
    pub fn new_suggestion(item: String, base: &str) -> Self {
        let distance = edit_distance(base, &item) * 10;
        Rank::Other(item, distance as u8)
    }

    /// An Emoji suggestion.
    pub fn emoji(item: String) -> Self {
        Rank::Emoji(item, 1)
    }

    /// An Emoji suggestion with custom ranking.
    pub fn emoji_ranked(item: String, rank: u8) -> Self {
        Rank::Emoji(item, rank)
    }

    /// A suggestion with a low `rank` ranking.
    pub fn last_ranked(item: String, rank: u8) -> Self {
        Rank::Last(item, rank)
    }

    /// Gives a mutable reference of the Rank's item.
    pub fn change_item(&mut self) -> &mut String {
        match self {
            Rank::First(s) => s,
            Rank::Emoji(s, _) => s,
            Rank::Other(s, _) => s,
            Rank::Last(s, _) => s,
        }
    }
}
impl PartialEq for Rank {
    fn eq(&self, other: &Self) -> bool {
        self.to_string() == other.to_string()
    }
}
impl Ord for Rank {
    fn cmp(&self, other: &Self) -> Ordering {
        match (self, other) {
            (Rank::First(_), Rank::First(_)) => Ordering::Equal,
            (Rank::First(_), Rank::Emoji(_, _)) => Ordering::Less,
            (Rank::Emoji(_, _), Rank::First(_)) => Ordering::Greater,
            (Rank::First(_), Rank::Other(_, _)) => Ordering::Less,
            (Rank::Other(_, _), Rank::First(_)) => Ordering::Greater,
            (Rank::First(_), Rank::Last(_, _)) => Ordering::Less,
            (Rank::Last(_, _), Rank::First(_)) => Ordering::Greater,

            (Rank::Emoji(_, _), Rank::Emoji(_, _)) => Ordering::Equal,
            (Rank::Emoji(_, e), Rank::Other(_, s)) => e.cmp(s),
            (Rank::Other(_, s), Rank::Emoji(_, e)) => s.cmp(e),
            (Rank::Emoji(_, _), Rank::Last(_, _)) => Ordering::Less,
            (Rank::Last(_, _), Rank::Emoji(_, _)) => Ordering::Greater,

            (Rank::Other(_, s1), Rank::Other(_, s2)) => s1.cmp(s2),
            (Rank::Other(_, _), Rank::Last(_, _)) => Ordering::Less,
            (Rank::Last(_, _), Rank::Other(_, _)) => Ordering::Greater,

            (Rank::Last(_, s1), Rank::Last(_, s2)) => s1.cmp(s2),
        }
    }
}
impl PartialOrd for Rank {
    fn partial_cmp(&self, other: &Self) -> Option<Ordering> {
        Some(self.cmp(other))
    }
}
impl Eq for Rank {}

impl Data {
    #[verifier::external_body]
    pub fn find_suffix(&self, string: &str) -> Option<&str> { unimplemented!() }
    #[verifier::external_body]
    pub fn search_corrected(&self, term: &str) -> Option<&str> { unimplemented!() }
}
impl Data {
    #[verifier::external_body]
    pub fn get_emoji_by_emoticon(&self, emoticon: &str) -> Option<&str> { unimplemented!() }
    #[verifier::external_body]
    pub fn get_emoji_by_name(&self, name: &str) -> Option<impl Iterator<Item = &str>> { unimplemented!(); None::<std::vec::IntoIter<&str>> }
}
impl Config {
    #[verifier::external_body]
    pub fn get_smart_quote(&self) -> bool { unimplemented!() }
    #[verifier::external_body]
    pub fn get_ansi_encoding(&self) -> bool { unimplemented!() }
    #[verifier::external_body]
    pub fn get_suggestion_include_english(&self) -> bool { unimplemented!() }
}
impl SplittedString<'_> {
    #[verifier::external_body]
    pub fn split(input: &str, include_colon: bool) -> SplittedString { unimplemented!() }
}
#[verifier::external_body]
pub fn smart_quoter(mut splitted: SplittedString) -> SplittedString { unimplemented!() }
impl Parser {
    #[verifier::external_body]
    pub fn convert(&self, raw_input: &str) -> String { unimplemented!() }
    #[verifier::external_body]
    pub fn convert_into(&self, raw_input: &str, output: &mut String) { unimplemented!() }
}

pub struct PhoneticSuggestion {
    pub suggestions: Vec<Rank>,
    // Phonetic buffer. It's used to avoid allocations
    // for phonetic conversion every time.
    pbuffer: String,
    // Regex buffer. It's used to avoid allocations
    // for regex conversion every time.
    regex: String,
    // Cache for storing dictionary searches.
    cache: HashMap<String, Vec<Rank>, RandomState>,
    phonetic: Parser,
    regex_parser: Parser,
    table: HashMap<&'static str, &'static [&'static str], RandomState>,
    // The user's auto-correct entries.
    pub user_autocorrect: HashMap<String, String, RandomState>,
}
impl PhoneticSuggestion {
fn add_suffix_to_suggestions(&mut self, middle: &str, data: &Data) -> Vec<Rank> {
        // Fill up the list with what we have from the cache.
        let mut list = self.cache.get(middle).cloned().unwrap_or_default();

        if middle.len() > 2 {
            for i in 1..middle.len() {
                let suffix_key = &middle[i..];

                if let Some(suffix) = data.find_suffix(suffix_key) {
                    let key = &middle[..(middle.len() - suffix_key.len())];
                    if let Some(cache) = self.cache.get(key) {
                        for base in cache {
                            let base_rmc = base.to_string().chars().last().unwrap(); // Right most character.
                            let suffix_lmc = suffix.chars().next().unwrap(); // Left most character.
                            let mut word = String::with_capacity(middle.len() * 3);
                            word.push_str(base.to_string());
                            match base_rmc {
                                ch if ch.is_vowel() && suffix_lmc.is_kar() => {
                                    // Insert য় in between.
                                    word.push('য়');
                                }
                                'ৎ' => {
                                    // Replace ৎ with ত
                                    word.pop();
                                    word.push('ত');
                                }
                                'ং' => {
                                    // Replace ং with ঙ
                                    word.pop();
                                    word.push('ঙ');
                                }
                                _ => (),
                            }
                            word.push_str(suffix);

                            let mut new = base.clone();
                            // This changes the suggestion with the suffixed one while keeping the ranking intact.
                            *new.change_item() = word;
                            list.push(new);
                        }
                    }
                }
            }
        }

        list
    }
pub fn suggest_only_phonetic(&mut self, term: &str) -> String {
        let string = SplittedString::split(term, false);

        self.phonetic.convert_into(string.word(), &mut self.pbuffer);

        format!(
            "{}{}{}",
            self.phonetic.convert(string.preceding()),
            self.pbuffer,
            self.phonetic.convert(string.trailing())
        )
    }
pub fn suggest(
        &mut self,
        term: &str,
        data: &Data,
        selections: &mut HashMap<String, String, RandomState>,
        config: &Config,
    ) -> (Vec<Rank>, usize) {
        let mut string = SplittedString::split(term, false);
        let mut typed_added = false;

        // Convert preceding and trailing meta characters into Bengali(phonetic representation).
        string.map(|p, t| (self.phonetic.convert(p), self.phonetic.convert(t)));

        // Smart Quoting feature
        if config.get_smart_quote() {
            string = smart_quoter(string);
        }

        self.suggestion_with_dict(&string, data);

        // Emoji addition with corresponding emoticon (if ANSI mode is not enabled).
        if !config.get_ansi_encoding() {
            if let Some(emoji) = data.get_emoji_by_emoticon(term) {
                // Add the emoticon
                // Sometimes the emoticon is captured as preceding meta characters and already included.
                if term != string.preceding() {
                    self.suggestions.push(Rank::last_ranked(term.to_owned(), 1));
                }
                self.suggestions.push(Rank::emoji(emoji.to_owned()));
                // Mark that we have added the typed text already (as the emoticon).
                typed_added = true;
            } else if let Some(emojis) = data.get_emoji_by_name(string.word()) {
                // Emoji addition with it's name
                // Add preceding and trailing meta characters.
                hole_emoji_names(&mut self.suggestions, emojis, &string);
            }
        }

        // Include written English word if the feature is enabled and it is not included already.
        // Avoid including meta character suggestion twice, so check `term` is not equal to the
        // captured preceding characters
        if config.get_suggestion_include_english() && !typed_added && term != string.preceding() {
            self.suggestions
                .push(Rank::last_ranked(term.to_string(), 3));
        }

        // Sort the suggestions.
        self.suggestions.sort();

        let selection = self.get_prev_selection(&string, data, selections);

        (self.suggestions.clone(), selection)
    }
pub fn suggestion_with_dict(&mut self, string: &SplittedString, data: &Data) {
        self.suggestions.clear();

        self.phonetic.convert_into(string.word(), &mut self.pbuffer);

        let phonetic = self.pbuffer.clone();

        // We always cache the suggestions for future reuse and for adding suffix to the suggestions.
        if !self.cache.contains_key(string.word()) {
            let mut suggestions: Vec<Rank> = Vec::new();

            // Auto Correct item.
            if let Some(correct) = self.search_corrected(string.word(), data) {
                let corrected = self.phonetic.convert(correct);
                // Treat it as the first priority.
                suggestions.push(Rank::first_ranked(corrected));
            }

            self.include_from_dictionary(string.word(), &phonetic, &mut suggestions, data);
            // Add the suggestions into the cache.
            self.cache.insert(string.word().to_string(), suggestions);
        }

        let suffixed_suggestions = self.add_suffix_to_suggestions(string.word(), data);

        // Middle Items: Dictionary suggestions
        for suggestion in suffixed_suggestions {
            push_checked(&mut self.suggestions, suggestion);
        }

        // Last Item: Phonetic
        push_checked(&mut self.suggestions, Rank::last_ranked(phonetic, 2));

        // Add those preceding and trailing meta characters.
        if !string.preceding().is_empty() || !string.trailing().is_empty() {
            for item in self.suggestions.iter_mut() {
                *item.change_item() = format!(
                    "{}{}{}",
                    string.preceding(),
                    item.to_string(),
                    string.trailing()
                );
            }
        }
    }
pub fn get_prev_selection(
        &self,
        string: &SplittedString,
        data: &Data,
        selections: &mut HashMap<String, String, RandomState>,
    ) -> usize {
        let len = string.word().len();
        let mut selected = String::with_capacity(len * 3);

        if let Some(item) = selections.get(string.word()) {
            selected.push_str(item);
        } else if len >= 2 {
            for i in 1..len {
                let test = &string.word()[len - i..len];

                if let Some(suffix) = data.find_suffix(test) {
                    let key = &string.word()[..len - test.len()];

                    if let Some(base) = selections.get(key) {
                        let rmc = base.chars().last().unwrap();
                        let suffix_lmc = suffix.chars().next().unwrap();
                        selected.push_str(base);

                        match rmc {
                            ch if ch.is_vowel() && suffix_lmc.is_kar() => {
                                // Insert য় in between.
                                selected.push('য়');
                            }
                            'ৎ' => {
                                // Replace ৎ with ত
                                selected.pop();
                                selected.push('ত');
                            }
                            'ং' => {
                                // Replace ং with ঙ
                                selected.pop();
                                selected.push('ঙ');
                            }
                            _ => (),
                        }
                        selected.push_str(suffix);

                        // Save this for future reuse.
                        selections.insert(string.word().to_string(), selected.to_string());
                    }
                }
            }
        }

        selected = format!("{}{}{}", string.preceding(), selected, string.trailing());

        self.suggestions
            .iter()
            .position(|item| *item.to_string() == selected)
            .unwrap_or_default()
    }
fn search_corrected<'a>(&'a self, term: &str, data: &'a Data) -> Option<&'a str> {
        self.user_autocorrect
            .get(term)
            .map(String::as_str)
            .or_else(|| data.search_corrected(term))
    }
    #[verifier::external_body]
    pub fn include_from_dictionary(&mut self, word: &str, base: &str, suggestions: &mut Vec<Rank>, data: &Data) { unimplemented!() }
}
#[verifier::external_body]
fn hole_emoji_names<'a>(v: &mut Vec<Rank>, e: impl Iterator<Item=&'a str>, s: &SplittedString) { unimplemented!() }
fn main() {}
}
