use vstd::prelude::*;
use vstd::string::*;
use std::ops::{RangeFrom, RangeTo, Range, Index};
verus! {
global size_of usize == 8;
pub mod ax {
use vstd::prelude::*;
use vstd::string::*;
use std::ops::{RangeFrom, RangeTo, Range, Index};
#[verifier::external_body] pub broadcast proof fn axiom_str_len_bound(s: &str) ensures (#[trigger] s.spec_bytes()).len() <= 0x1000_0000_0000_0000 {}
#[verifier::external_body] pub broadcast proof fn axiom_ascii_len(s: &str) requires s.is_ascii() ensures (#[trigger] s.spec_bytes()).len() == s@.len() {}
#[verifier::external_body] pub broadcast proof fn axiom_ascii_from_ok(idx: &RangeFrom<usize>, s: &str)
    requires s.is_ascii(), idx.start <= s@.len() ensures #[trigger] str_slice_in_bounds(idx, s) {}
#[verifier::external_body] pub broadcast proof fn axiom_ascii_to_ok(idx: &RangeTo<usize>, s: &str)
    requires s.is_ascii(), idx.end <= s@.len() ensures #[trigger] str_slice_in_bounds(idx, s) {}
#[verifier::external_body] pub broadcast proof fn axiom_ascii_range_ok(idx: &Range<usize>, s: &str)
    requires s.is_ascii(), idx.start <= idx.end <= s@.len() ensures #[trigger] str_slice_in_bounds(idx, s) {}
pub uninterp spec fn str_index_rel<I, O: ?Sized>(s: &str, idx: I, r: &O) -> bool;
#[verifier::external_body] pub broadcast proof fn axiom_ascii_index_from(s: &str, idx: RangeFrom<usize>, r: &str)
    requires s.is_ascii(), idx.start <= s@.len(), #[trigger] str_index_rel(s, idx, r)
    ensures r@ == s@.skip(idx.start as int), r.is_ascii() {}
#[verifier::external_body] pub broadcast proof fn axiom_ascii_index_to(s: &str, idx: RangeTo<usize>, r: &str)
    requires s.is_ascii(), idx.end <= s@.len(), #[trigger] str_index_rel(s, idx, r)
    ensures r@ == s@.take(idx.end as int), r.is_ascii() {}
#[verifier::external_body] pub broadcast proof fn axiom_ascii_index_range(s: &str, idx: Range<usize>, r: &str)
    requires s.is_ascii(), idx.start <= idx.end <= s@.len(), #[trigger] str_index_rel(s, idx, r)
    ensures r@ == s@.subrange(idx.start as int, idx.end as int), r.is_ascii() {}
pub broadcast group group_ax { axiom_str_len_bound, axiom_ascii_len, axiom_ascii_from_ok, axiom_ascii_to_ok, axiom_ascii_range_ok, axiom_ascii_index_from, axiom_ascii_index_to, axiom_ascii_index_range }
}
broadcast use ax::group_ax;
pub assume_specification<I> [<str as std::ops::Index<I>>::index] (s: &str, idx: I) -> (r: &<I as std::slice::SliceIndex<str>>::Output)
    where I: std::slice::SliceIndex<str>,
    ensures ax::str_index_rel(s, idx, r);


fn h(s: &str) -> (r: usize) requires s.is_ascii(), ensures r == s@.len() {
    let r = s.len();
    assert(s.spec_bytes().len() <= 0x1000_0000_0000_0000);
    assert(s.spec_bytes().len() == s@.len());
    assert(r == s.spec_bytes().len());
    r
}
fn f(s: &str, i: usize) -> (r: &str) requires s.is_ascii(), i <= s@.len(), ensures r@ == s@.skip(i as int), r.is_ascii() { &s[i..] }
fn g(s: &str, i: usize) -> (r: &str) requires s.is_ascii(), i <= s@.len(), ensures r@ == s@.take(i as int), r.is_ascii() { &s[..i] }
fn k(s: &str, i: usize, j: usize) -> (r: &str) requires s.is_ascii(), i <= j <= s@.len(), ensures r@ == s@.subrange(i as int, j as int), r.is_ascii() { &s[i..j] }
fn main() {}
}
