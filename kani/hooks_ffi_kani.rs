
// ---- Kani harnesses, appended by the verification machinery to a scratch copy of src/ffi.rs only ----
#[cfg(kani)]
mod verif_kani_ffi {
    use super::*;

    fn stub_dir() -> std::path::PathBuf {
        std::path::PathBuf::new()
    }

    fn getters(c: &Config) -> [bool; 11] {
        [
            c.get_suggestion_include_english(),
            c.get_phonetic_suggestion(),
            c.get_fixed_suggestion(),
            c.get_fixed_automatic_vowel(),
            c.get_fixed_automatic_chandra(),
            c.get_fixed_traditional_kar(),
            c.get_fixed_old_reph(),
            c.get_fixed_numpad(),
            c.get_fixed_old_kar_order(),
            c.get_ansi_encoding(),
            c.get_smart_quote(),
        ]
    }

    fn set(p: *mut Config, which: u8, v: bool) {
        match which {
            0 => riti_config_set_suggestion_include_english(p, v),
            1 => riti_config_set_phonetic_suggestion(p, v),
            2 => riti_config_set_fixed_suggestion(p, v),
            3 => riti_config_set_fixed_auto_vowel(p, v),
            4 => riti_config_set_fixed_auto_chandra(p, v),
            5 => riti_config_set_fixed_traditional_kar(p, v),
            6 => riti_config_set_fixed_old_reph(p, v),
            7 => riti_config_set_fixed_numpad(p, v),
            8 => riti_config_set_fixed_old_kar_order(p, v),
            9 => riti_config_set_ansi_encoding(p, v),
            _ => riti_config_set_smart_quote(p, v),
        }
    }

    /// model of the eleven options: raw values; getter 0 is `include_english && !ansi`
    fn view(m: &[bool; 11]) -> [bool; 11] {
        let mut v = *m;
        v[0] = m[0] && !m[9];
        v
    }

    // config handle life cycle: non-null, exclusively owned, each setter changes exactly its option,
    // the Rust getters report what was set, free releases it; two arbitrary setter calls in sequence.
    #[kani::proof]
    #[kani::stub(crate::config::get_user_data_dir, stub_dir)]
    #[kani::unwind(12)]
    fn k_ffi_config_lifecycle() {
        let p = riti_config_new();
        assert!(!p.is_null());
        // defaults: everything off except smart quotes
        let mut model = [false; 11];
        model[10] = true;
        assert!(getters(unsafe { &*p }) == view(&model));
        let w1: u8 = kani::any();
        let w2: u8 = kani::any();
        kani::assume(w1 < 11 && w2 < 11);
        let v1: bool = kani::any();
        let v2: bool = kani::any();
        set(p, w1, v1);
        model[w1 as usize] = v1;
        kani::cover!(w1 == 9 && v1, "ansi can be set");
        assert!(getters(unsafe { &*p }) == view(&model));
        set(p, w2, v2);
        model[w2 as usize] = v2;
        assert!(getters(unsafe { &*p }) == view(&model));
        riti_config_free(p);
    }

    // freeing a null handle / null string is a no-op
    #[kani::proof]
    fn k_ffi_null_free() {
        riti_config_free(std::ptr::null_mut());
        riti_suggestion_free(std::ptr::null_mut());
        riti_context_free(std::ptr::null_mut());
        riti_string_free(std::ptr::null_mut());
    }

    /// a one-byte NUL-free ASCII string (symbolic byte)
    fn any_ascii1() -> String {
        let b: u8 = kani::any();
        kani::assume(b >= 1 && b < 128);
        let mut s = String::new();
        s.push(b as char);
        s
    }

    fn check_cstr(p: *mut c_char, expect: &str) {
        assert!(!p.is_null());
        let bytes = expect.as_bytes();
        let mut i = 0;
        while i < bytes.len() {
            assert!(unsafe { *p.add(i) } as u8 == bytes[i]);
            i += 1;
        }
        // NUL terminated right after the text
        assert!(unsafe { *p.add(bytes.len()) } == 0);
    }

    // a list-style suggestion: read-outs equal the Rust values; every returned string is a fresh,
    // NUL-terminated copy that stays valid after the suggestion itself has been freed
    #[kani::proof]
    #[kani::unwind(4)]
    fn k_ffi_suggestion_full() {
        let a = any_ascii1();
        let b = any_ascii1();
        let sel: usize = kani::any();
        kani::assume(sel < 2);
        let s = Suggestion::Full { auxiliary: String::new(), suggestions: vec![a.clone(), b.clone()], selection: sel, ansi: false };
        let p = Box::into_raw(Box::new(s));
        assert!(!riti_suggestion_is_lonely(p));
        assert!(!riti_suggestion_is_empty(p));
        assert!(riti_suggestion_get_length(p) == 2);
        assert!(riti_suggestion_previously_selected_index(p) == sel);
        let idx: usize = kani::any();
        kani::assume(idx < 2);
        let expect = if idx == 0 { a.clone() } else { b.clone() };
        let c1 = riti_suggestion_get_suggestion(p, idx);
        check_cstr(c1, &expect);
        let c3 = riti_suggestion_get_auxiliary_text(p);
        check_cstr(c3, "");
        riti_suggestion_free(p);
        // independently owned: still readable after the suggestion was freed
        check_cstr(c1, &expect);
        kani::cover!(idx == 1, "second candidate reachable");
    }

    // a single-string suggestion
    #[kani::proof]
    #[kani::unwind(4)]
    fn k_ffi_suggestion_single() {
        let a = any_ascii1();
        let s = Suggestion::Single { suggestion: a.clone(), ansi: false };
        let p = Box::into_raw(Box::new(s));
        assert!(riti_suggestion_is_lonely(p));
        assert!(!riti_suggestion_is_empty(p));
        let c1 = riti_suggestion_get_lonely_suggestion(p);
        check_cstr(c1, &a);
        let c2 = riti_suggestion_get_pre_edit_text(p, 0);
        check_cstr(c2, &a);
        assert!(c1 != c2);
        riti_suggestion_free(p);
        check_cstr(c1, &a);
        check_cstr(c2, &a);
    }
}
