
// ---- Kani harness, appended to a scratch copy of src/fixed/layout.rs only ----
#[cfg(kani)]
mod verif_kani_layout {
    use super::*;
    use crate::utility::get_modifiers;

    // all 256 modifier bytes: the AltGr plane is selected by bit 1 alone (Shift and stray bits ignored)
    #[kani::proof]
    fn k_modifiers_plane() {
        let m: u8 = kani::any();
        let plane: LayoutModifiers = get_modifiers(m).into();
        if m & 2 == 2 {
            assert!(plane == LayoutModifiers::AltGr);
        } else {
            assert!(plane == LayoutModifiers::Normal);
        }
        kani::cover!(m & 0xFC != 0 && m & 2 == 2, "stray high bits with AltGr");
    }
}
